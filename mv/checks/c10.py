"""C10 - heading anchors follow the GitHub slug rule, are unique, match myst-anchors.

Three oracles on every generated heading sequence: (1) a reference model of the documented rule (lower-case, spaces to
hyphens, punctuation removed, ``-1, -2, ...`` appended to the *base* slug); (2) the real ``myst-anchors`` CLI run on the
same file; (3) self-resolution: ``[](#slug)`` links appended to the document must land on their own heading.
Plus anchor depth 0-7 and custom slug functions (callable / dotted path / failing).
"""

from __future__ import annotations

import io
import itertools
import os
import re
import shutil
import tempfile

from .. import core, drive, mon

PROP = "C10"
RULE = (
    "sequences of (level, title, container) headings: exhaustive over a 14-title adversarial alphabet (duplicates, 'a-1' "
    "collisions, case, inline code/markup, punctuation, non-ASCII, leading image, trailing html, empty) up to the tier's "
    "length (distinct by construction), random Unicode/punctuation/markup titles, depths 0-7, headings in quote/list "
    "containers, custom slug functions; non-trivial = at least two headings within the anchor depth"
)
ASSUME = [
    "myst-anchors is run in-process through myst_parser.cli.print_anchors on a temp file (same code path as the console script)",
    "documents compared with the CLI use the default configuration (the CLI hard-codes it) and contain no directives (the CLI does not look into fences)",
]
SHARDS = {"quick": 16, "thorough": 16}
BUDGET_S = {"quick": 40, "thorough": 900}
ANCHORS = ["DocutilsRenderer.generate_heading_target", "base.compute_unique_slug", "base.default_slugify", "ResolveAnchorIds.apply", "cli.print_anchors"]

TITLES = ["a", "a-1", "A", "a 1", "`a`", "*a*", "a!", "é", "![x](i.png) t", "t <br>", "", "a-1-1", "ab c", "[a](http://x)"]
TMP = None
_CLEAN = re.compile(r"[^\w一-鿿\- ]")


NESTED = [0]


def setup(ctx):
    global TMP
    TMP = tempfile.mkdtemp(prefix="c10_")
    mon.start_reach(ctx)


def teardown(ctx):
    mon.finish_reach(ctx, ANCHORS)
    shutil.rmtree(TMP, ignore_errors=True)


# ------------------------------------------------------------------------------------------- model


def slug0(title, strip=True):
    t = title.strip() if strip else title
    return _CLEAN.sub("", t.lower().replace(" ", "-"))


def uniq(bases):
    taken, out = set(), []
    for b in bases:
        s, i = b, 1
        while s in taken:
            s = f"{b}-{i}"
            i += 1
        taken.add(s)
        out.append(s)
    return out


def token_titles(text, depth):
    """Title strings (text + inline code of each heading within depth) from markdown-it's own token stream."""
    from markdown_it.renderer import RendererHTML

    from myst_parser.config.main import MdParserConfig
    from myst_parser.parsers.mdit import create_md_parser

    md = create_md_parser(MdParserConfig(), RendererHTML)
    toks = md.parse(text)
    out = []
    for i, t in enumerate(toks):
        if t.type == "heading_open":
            lvl = int(t.tag[1])
            title = "".join(c.content for c in (toks[i + 1].children or []) if c.type in ("text", "code_inline"))
            out.append((lvl, title))
    return out


# ------------------------------------------------------------------------------------------- case


def build(case):
    lines = []
    for lvl, title, cont in case["heads"]:
        h = ("#" * lvl + " " + title).rstrip()
        if cont == "quote":
            lines += ["> " + h, ">", "> in quote", ""]
        elif cont == "list":
            lines += ["- " + h, "", "  in list", ""]
        elif cont == "setext" and lvl <= 2 and title.strip() and title[0] not in "#>-+*`![<=~|:_\\&{(%$ \t" and not re.match(r"\d+[.)]", title):
            lines += [title, "===" if lvl == 1 else "---", "", "para", ""]
        else:
            lines += [h, "", "para", ""]
    return "\n".join(lines) + "\n"


H_RE = re.compile(r'<h(\d)(?: id="([^"]*)")?>')


def run_cli(path, depth):
    from myst_parser.cli import print_anchors

    out = path + ".out"
    print_anchors([path, "-l", str(depth), "-o", out])
    # argparse.FileType leaves the handles to the garbage collector
    with open(out, encoding="utf8") as f:
        html = f.read()
    return [(int(m.group(1)), m.group(2)) for m in H_RE.finditer(html)]


def eval_reuse(ctx, case):
    """ONE parser object (create_md_parser) rendering several texts one after the other: anchors are unique within each document, not across them."""
    from docutils import nodes
    from docutils.frontend import get_default_settings
    from docutils.utils import new_document

    from myst_parser.config.main import MdParserConfig
    from myst_parser.mdit_to_docutils.base import DocutilsRenderer
    from myst_parser.parsers.docutils_ import Parser
    from myst_parser.parsers.mdit import create_md_parser

    depth = case["depth"]
    md = create_md_parser(MdParserConfig(heading_anchors=depth), DocutilsRenderer)
    for k, heads_ in enumerate(case["texts"]):
        text = build({"heads": heads_})
        settings = get_default_settings(Parser)
        settings.warning_stream = io.StringIO()
        settings.halt_level = 5
        doc = new_document(os.path.join(TMP, f"reuse{k}.md"), settings=settings)
        md.options["document"] = doc
        try:
            md.render(text)
        except Exception as e:  # noqa: BLE001
            sig = core.exc_signature(e)
            ctx.violation(f"reuse:raises:{sig['type']}:{sig['myst']}", f"render number {k + 1} with the same parser raised {sig['type']}: {sig['msg']}", case, {"text": text, **sig})
            return
        tt = token_titles(text, depth)
        heads = [n for n in doc.findall(lambda n: isinstance(n, (nodes.section, nodes.rubric)))]
        if len(heads) != len(tt):
            ctx.count("case_skipped_heading_count_mismatch")
            continue
        obs = [h.get("slug") for (lvl, _), h in zip(tt, heads) if lvl <= depth]
        exp = uniq([slug0(t) for lvl, t in tt if lvl <= depth])
        ctx.count("reuse_renders_compared")
        if obs != exp and obs != uniq([slug0(t, strip=False) for lvl, t in tt if lvl <= depth]):
            ctx.violation("reuse:anchors-depend-on-earlier-render", f"text number {k + 1} rendered with the same parser object gets anchors {obs}; on its own (and by the rule) {exp}", case, {"text": text, "previous_texts": k})
            return
        slugs = getattr(doc, "myst_slugs", {})
        if set(slugs) - set(obs):
            ctx.violation("reuse:slug-table-keeps-earlier-documents", f"document.myst_slugs of text number {k + 1} contains {sorted(set(slugs) - set(obs))[:5]}, which are not anchors of this document", case, {"text": text})
            return


def eval_case(ctx, case):
    from docutils import nodes

    if case.get("kind") == "reuse":
        return eval_reuse(ctx, case)
    text = build(case)
    depth = case["depth"]
    func = case.get("func")
    detail = {"text": text, "depth": depth}
    kw = {"myst_heading_anchors": depth}
    if func:
        from mv import slugfuncs

        if func["how"] == "nested":
            # a function in a sub-module of a package that nothing has imported yet: 'pkg.helpers.slugs.<name>'
            import sys

            NESTED[0] += 1
            pkg = f"c10pkg{os.getpid()}_{NESTED[0]}"
            os.makedirs(os.path.join(TMP, pkg, "helpers"))
            for rel_ in ("__init__.py", "helpers/__init__.py"):
                open(os.path.join(TMP, pkg, rel_), "w").close()
            with open(os.path.join(TMP, pkg, "helpers", "slugs.py"), "w") as f:
                f.write("from mv.slugfuncs import *  # noqa\n")
            if TMP not in sys.path:
                sys.path.insert(0, TMP)
            import importlib

            importlib.invalidate_caches()
            kw["myst_heading_slug_func"] = f"{pkg}.helpers.slugs." + func["name"]
            ctx.count("slug_func_from_nested_unimported_module")
        elif func["how"] == "front-matter":
            # configured per file, as a dotted path in the document's own front matter (over a different project-wide function)
            text = "---\nmyst:\n  heading_slug_func: mv.slugfuncs." + func["name"] + "\n---\n\n" + text
            detail["text"] = text
            kw["myst_heading_slug_func"] = slugfuncs.constant if func["name"] != "constant" else slugfuncs.shout
            ctx.count("slug_func_from_front_matter")
        else:
            kw["myst_heading_slug_func"] = getattr(slugfuncs, func["name"]) if func["how"] == "callable" else "mv.slugfuncs." + func["name"]
    src = os.path.join(TMP, "doc.md")
    try:
        doc, wtext = drive.parse_pre(text, source_path=src, **kw)
    except Exception as e:  # noqa: BLE001
        sig = core.exc_signature(e)
        ctx.violation(f"raises:{sig['type']}:{sig['myst']}", f"parse raised {sig['type']}: {sig['msg']}", case, {**detail, **sig})
        return
    heads = [n for n in doc.findall(lambda n: isinstance(n, (nodes.section, nodes.rubric)))]
    tt = token_titles(text, depth)
    if len(heads) != len(tt):
        ctx.count("case_skipped_heading_count_mismatch")
        return
    observed = [(lvl, h.get("slug")) for (lvl, _), h in zip(tt, heads)]
    detail["observed"] = observed
    # (4) depth
    for (lvl, s) in observed:
        if lvl > depth and s is not None:
            ctx.violation("depth:anchor-beyond-depth", f"a level-{lvl} heading got anchor {s!r} with heading_anchors={depth}", case, detail)
            return
    within = [(lvl, title) for lvl, title in tt if lvl <= depth]
    obs_in = [s for lvl, s in observed if lvl <= depth]
    ctx.count("headings_within_depth", len(within))
    if func:
        eval_custom(ctx, case, func, within, obs_in, wtext, doc, detail)
        if func["name"] in ("shout", "boom_some"):
            check_resolution(ctx, case, text, kw, tt, depth, obs_in, detail, src, safe_only=True)  # custom anchors must resolve as well
        return
    if any(s is None for s in obs_in):
        ctx.violation("depth:anchor-missing", f"a heading within depth {depth} has no anchor", case, detail)
        return
    # (1) documented rule
    exp = uniq([slug0(t) for _, t in within])
    detail["model"] = exp
    if obs_in != exp:
        nostrip = uniq([slug0(t, strip=False) for _, t in within])
        if obs_in == nostrip and any(t != t.strip() for _, t in within):
            ctx.violation("slug:title-not-stripped", f"anchors {obs_in} differ from the documented rule {exp} only by unstripped title whitespace", case, detail)
        else:
            bases = [slug0(t) for _, t in within]
            if len(set(obs_in)) != len(obs_in):
                key = "unique:duplicate-anchor"
            elif [re.sub(r"(-\d+)+$", "", o) for o in obs_in] == [re.sub(r"(-\d+)+$", "", e) for e in exp] and len(set(bases)) < len(bases):
                key = "unique:suffix-not-on-base-slug"
            else:
                key = "slug:rule"
            ctx.violation(key, f"anchors {obs_in}, documented rule gives {exp}", case, detail)
            return
    ctx.count("model_compared")
    # (2) the CLI
    with open(src, "w", encoding="utf8") as f:
        f.write(text)
    try:
        cli = run_cli(src, depth)
    except Exception as e:  # noqa: BLE001
        sig = core.exc_signature(e)
        ctx.violation(f"cli-raises:{sig['type']}", f"myst-anchors raised {sig['type']}: {sig['msg']}", case, {**detail, **sig})
        return
    cli_ids = [s for _, s in cli]
    detail["cli"] = cli_ids
    if cli_ids != obs_in:
        if cli_ids == exp and any(t != t.strip() for _, t in within):
            ctx.violation("slug:title-not-stripped", f"anchors {obs_in} differ from myst-anchors {cli_ids} only by unstripped title whitespace", case, detail)
        else:
            ctx.violation("cli:differs", f"rendering assigns {obs_in}, myst-anchors prints {cli_ids}", case, detail)
            return
    ctx.count("cli_compared")
    check_resolution(ctx, case, text, kw, tt, depth, obs_in, detail, src)


def check_resolution(ctx, case, text, kw, tt, depth, obs_in, detail, src, safe_only=False):
    """(3) every assigned anchor, used as '[..](#anchor)', resolves to its own heading."""
    from docutils import nodes

    usable = [(i, s) for i, s in enumerate(obs_in) if s is not None and not any(ch in s for ch in "<>\n\\")]
    if safe_only:  # an arbitrary custom slug need not be expressible as a link destination: keep the plainly expressible ones
        usable = [(i, s) for i, s in usable if re.fullmatch(r"[A-Za-z0-9_-]+", s)]
    links = "".join(f"\n[lk{i}x](<#{s}>)\n" for i, s in usable)
    try:
        doc2, w2 = drive.parse(text + links, source_path=src, doctitle_xform=False, **kw)
    except Exception as e:  # noqa: BLE001
        ctx.count("no_document:" + type(e).__name__)  # totality of the pipeline is C01's business
        return
    heads2 = [n for n in doc2.findall(lambda n: isinstance(n, (nodes.section, nodes.rubric)))]
    in2 = [h for (lvl, _), h in zip(tt, heads2) if lvl <= depth]
    refs = {}
    for r in doc2.findall(nodes.reference):
        t = r.astext()
        if t.startswith("lk") and t.endswith("x"):
            refs[int(t[2:-1])] = r
    for i, s in usable:
        r = refs.get(i)
        if r is None:
            ctx.violation("resolve:link-lost", f"the link to #{s} is not in the doctree", case, detail)
            continue
        if i >= len(in2) or r.get("refid") not in in2[i]["ids"]:
            where = next((j for j, h in enumerate(in2) if r.get("refid") in h["ids"]), None)
            ctx.violation("resolve:wrong-heading" if where is not None else "resolve:unresolved", f"[](#{s}) has refid {r.get('refid')!r}; heading {i} has ids {in2[i]['ids'] if i < len(in2) else None} (lands on heading {where})", case, {**detail, "warnings": w2})
        else:
            ctx.count("links_resolved_to_own_heading")
    if "[myst." in w2.replace("[myst.header]", "").replace("[myst.heading_slug]", ""):
        ctx.violation("resolve:warning", f"unexpected warning: {w2.strip()[:160]}", case, detail)



def eval_custom(ctx, case, func, within, obs_in, wtext, doc, detail):
    from mv import slugfuncs

    f = getattr(slugfuncs, func["name"])
    bases, fails = [], 0
    for _, t in within:
        try:
            bases.append(f(t))
        except Exception:  # noqa: BLE001
            bases.append(None)
            fails += 1
    # uniqueness is against the slugs actually recorded (failed headings record none)
    taken, exp = set(), []
    for b in bases:
        if b is None:
            exp.append(None)
            continue
        s, i = b, 1
        while s in taken:
            s = f"{b}-{i}"
            i += 1
        taken.add(s)
        exp.append(s)
    detail["model"] = exp
    if obs_in != exp:
        ctx.violation("custom:slug-func-not-applied", f"anchors {obs_in}, custom function {func['name']} ({func['how']}) gives {exp}", case, detail)
    nw = len(re.findall(r"\[myst\.heading_slug\]", wtext))
    if nw != fails:
        ctx.violation("custom:failure-warning-count", f"{nw} [myst.heading_slug] warnings for {fails} failing calls", case, {**detail, "warnings": wtext})
    other = [w for w in drive.split_warnings(wtext) if "[myst.heading_slug]" not in w["msg"] and "[myst.header]" not in w["msg"]]
    if other:
        ctx.violation("custom:other-warning", f"unexpected warning {other[0]['msg'][:120]}", case, detail)
    if "para" not in doc.astext() and any(c not in ("quote", "list") for _, _, c in case["heads"]):
        ctx.violation("custom:content-lost", "document content missing after slug-function failure", case, detail)
    ctx.count("custom_compared")
    if fails:
        ctx.count("custom_failures_observed", fails)


# ------------------------------------------------------------------------------------------- workload

ALPHA = list("abAB zZ09-_!?.,'\"`*~$&<>()[]{}#+=/\\|") + ["é", "É", "ß", "İ", "ǅ", "中", "文", "한", "😀", "́", " ", " ", "ﬁ", "Σ", "ς", "½", "²", "٣", "_", "—",
                                                                 # letters that are not in Unicode normal form C (conjoining jamo, oxia vowels, compatibility ideographs, letter-like signs): a slug keeps them as written
                                                                 "\u1112\u1161\u11ab", "\u1100\u1161", "\u1f71", "\u1f73", "\uf900", "\ufa10", "\u212b", "\u2126", "\u0958", "\u0b5c"]


def rand_title(R):
    k = R.random()
    if k < 0.5:
        return "".join(R.choice(ALPHA) for _ in range(R.randint(0, 8))).strip()
    if k < 0.7:
        return R.choice(TITLES)
    parts = [R.choice(["a", "b c", "`co de`", "*em*", "**st**", "[ln](http://x)", "![im](i.png)", "<b>", "&amp;", "\\*", "a_b", "x  y", "Ünï", "{abbreviation}`A (b)`", "[^fn]", "1.", "-", "--"]) for _ in range(R.randint(1, 4))]
    return " ".join(parts)


def run_shard(ctx):
    R = ctx.rng
    quick = ctx.tier == "quick"
    maxlen = 3 if quick else 4
    idx = n = 0
    complete = True
    LV = [1, 2, 1, 2]
    for ln in range(1, maxlen + 1):
        for seq in itertools.product(range(len(TITLES)), repeat=ln):
            idx += 1
            if idx % ctx.nshards != ctx.shard:
                continue
            case = {"kind": "seq", "heads": [[LV[i], TITLES[t], "top"] for i, t in enumerate(seq)], "depth": 2}
            eval_case(ctx, case)
            n += 1
            if (n & 0xFF) == 0 and ctx.out_of_time():
                complete = False
                break
        if not complete:
            break
    ctx.case(n=n)
    ctx.enumerated(max(0, n - (len(TITLES) // ctx.nshards + 1)))
    ctx.subrun("exhaustive_title_sequences", exhaustive=complete, max_length=maxlen, titles=len(TITLES), cases=n)
    ctx.sample({"kind": "seq", "heads": [[1, "a", "top"], [2, "a", "top"], [1, "a-1", "top"]], "depth": 2})
    for i in range(40 if quick else 2000):
        pool = [R.choice(TITLES[:6]) for _ in range(3)]
        case = {"kind": "reuse", "depth": R.choice([2, 3, 6]), "texts": [[[R.randint(1, 3), R.choice(pool), "top"] for _ in range(R.randint(1, 4))] for _ in range(R.randint(2, 4))]}
        eval_case(ctx, case)
        ctx.case(("reuse", repr(case)), True)
    n_r = 800 if quick else 40000
    for i in range(n_r):
        heads = []
        pool = [rand_title(R) for _ in range(R.randint(1, 4))]
        for _ in range(R.randint(1, 8)):
            lvl = R.randint(1, 6)
            heads.append([lvl, R.choice(pool) if R.random() < 0.7 else rand_title(R), R.choice(["top", "top", "top", "quote", "list", "setext"])])
        case = {"kind": "rand", "heads": heads, "depth": R.choice([0, 1, 2, 2, 3, 4, 5, 6, 7])}
        if R.random() < 0.2:
            case["func"] = {"name": R.choice(["shout", "constant", "boom", "boom_some"]), "how": R.choice(["callable", "dotted", "nested", "front-matter"])}
        eval_case(ctx, case)
        ctx.case(("rand", repr(case)), sum(1 for h in heads if h[0] <= case["depth"]) >= 2)
        if i == 0:
            ctx.sample(case)
        if (i & 0x1F) == 0 and ctx.out_of_time():
            break


def finalize(m, tier):
    c = m["counters"]
    for k, lo in (("model_compared", 1500), ("cli_compared", 1500), ("links_resolved_to_own_heading", 3000), ("custom_compared", 200), ("custom_failures_observed", 50)):
        if c.get(k, 0) < lo:
            m["inconclusive"].append(f"monitor observed only {c.get(k, 0)} '{k}' events (< {lo})")
    if c.get("case_skipped_heading_count_mismatch", 0) > 0.05 * max(1, m["evaluations"]):
        m["inconclusive"].append("heading count of doctree and token stream disagreed on > 5% of cases (oracle not applicable)")
    mon.require_reach(m, ANCHORS)
