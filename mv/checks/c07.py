"""C07 - option tokenizer agrees with YAML on its subset and fails only its own way.

Reference-model monitor: PyYAML's *event stream* decides whether a text is inside the subset and what the
pairs are. Progress monitor: StreamBuffer.forward/peek are wrapped (index monotone, inside buffer+sentinel) and
sys.monitoring JUMP events on the code objects of options.py count loop iterations against a logical step budget,
so a non-terminating scan ends deterministically (StepBudgetExceeded), never by wall clock.
"""

from __future__ import annotations

import itertools
import sys

import yaml

from .. import core

PROP = "C07"
RULE = (
    "strings: exhaustive up to the tier's length over three YAML-significant alphabets (A1 structure/quotes, A2 line-break "
    "kinds/BOM/NUL/tab, A3 block-scalar headers; A2/A3 skip strings already in A1; distinct by construction), the same "
    "enumeration in value position ('k: '+s [+ second entry]), grammar-generated option blocks and byte soup (distinct by "
    "hash); non-trivial = contains ':' (can be a mapping)"
)
ASSUME = [
    "PyYAML 6.0.3's scanner/parser is the conforming YAML loader (event stream, no tag resolution)",
    "subset = implicit document, one block mapping, untagged/unanchored scalars, keys plain/'/\" at column 0, every "
    "non-empty value starting on its key's line (layout restrictions documented by the tokenizer's own error messages)",
]
SHARDS = {"quick": 16, "thorough": 16}
BUDGET_S = {"quick": 45, "thorough": 1500}

A1 = "a: '\"\n#|>-\\"
A2 = "a: \n\r\x85\u2028\t\ufeff\0"
A3 = "a: \n|>+-120#"
COMMON = set("a: \n")
E = yaml.events


def oracle(text):
    """Pairs if ``text`` is inside the subset, else None."""
    try:
        evs = list(yaml.parse(text, Loader=yaml.SafeLoader))
    except (yaml.YAMLError, ValueError, OverflowError):
        # PyYAML itself lets chr() fail on \U escapes beyond 0x10FFFF: not in the language
        return None
    if len(evs) == 2:
        return []  # empty stream
    if not (isinstance(evs[1], E.DocumentStartEvent) and not evs[1].explicit):
        return None
    ms = evs[2]
    if not isinstance(ms, E.MappingStartEvent) or ms.flow_style or ms.anchor or ms.tag:
        return None
    if not isinstance(evs[-3], E.MappingEndEvent):
        return None
    if not isinstance(evs[-2], E.DocumentEndEvent) or evs[-2].explicit:
        return None
    body = evs[3:-3]
    if len(body) % 2:
        return None
    out = []
    for k, v in zip(body[::2], body[1::2]):
        for s in (k, v):
            if not isinstance(s, E.ScalarEvent) or s.anchor or s.tag:
                return None
        if k.style not in (None, "'", '"'):
            return None
        if k.start_mark.column != 0:
            return None
        if (v.value != "" or v.style is not None) and v.start_mark.line != k.end_mark.line:
            return None
        out.append((k.value, v.value))
    return out


class Progress:
    """Scanner-progress + logical step budget monitor."""

    TOOL = 3

    def __init__(self):
        self.steps = 0
        self.budget = 10**9
        self.bad = None
        self.max_ratio = 0.0
        self.events = 0

    def install(self):
        import myst_parser.parsers.options as O

        self.O = O
        mon = self
        SB = O.StreamBuffer
        orig_forward = SB.forward

        def forward(self, length=1):
            before = self._index
            orig_forward(self, length)
            if self._index < before or self._index > len(self._buffer):
                mon.bad = f"index {before} -> {self._index} (buffer {len(self._buffer)})"
            mon.steps += 1
            if mon.steps > mon.budget:
                mon.budget = 10**9
                raise core.StepBudgetExceeded("forward")

        SB.forward = forward
        m = sys.monitoring
        m.use_tool_id(self.TOOL, "c07-steps")

        def on_jump(code, src, dst):
            mon.steps += 1
            mon.events += 1
            if mon.steps > mon.budget:
                mon.budget = 10**9
                raise core.StepBudgetExceeded("jump")

        m.register_callback(self.TOOL, m.events.JUMP, on_jump)
        n = 0
        for obj in list(vars(O).values()) + [SB.peek, SB.prefix, orig_forward, SB.get_position]:
            code = getattr(obj, "__code__", None)
            if code is not None and code.co_filename == O.__file__:
                m.set_local_events(self.TOOL, code, m.events.JUMP)
                n += 1
        self.code_objects = n
        return self

    def begin(self, n):
        self.steps = 0
        self.bad = None
        self.budget = 1000 * (n + 10)

    def end(self, n):
        r = self.steps / (n + 10)
        if r > self.max_ratio:
            self.max_ratio = r
        self.budget = 10**9


PROG: Progress | None = None


def setup(ctx):
    global PROG
    PROG = Progress().install()


def classify_disagreement(text, exp, got):
    if len(exp) != len(got):
        return "disagree:pair-count"
    for (ek, ev), (gk, gv) in zip(exp, got):
        if ek != gk:
            return "disagree:key"
        if ev != gv:
            # style of the differing value, from the reference parser
            try:
                for e in yaml.parse(text, Loader=yaml.SafeLoader):
                    if isinstance(e, E.ScalarEvent) and e.value == ev:
                        style = {None: "plain", "'": "single", '"': "double", "|": "literal", ">": "folded"}[e.style]
                        return f"disagree:value-{style}"
            except Exception:  # noqa: BLE001
                pass
            return "disagree:value"
    return "disagree"


def run_one(ctx, text, case_kind="str"):
    """Evaluate one string. Returns a short outcome tag."""
    from myst_parser.parsers.options import TokenizeError, options_to_items

    n = len(text)
    PROG.begin(n)
    try:
        got = options_to_items(text)[0]
        err = None
    except TokenizeError as e:
        got, err = None, e
    except core.StepBudgetExceeded as e:
        PROG.end(n)
        ctx.violation("termination:step-budget", f"scanner exceeded {1000*(n+10)} steps on a {n}-char text ({e})", {"kind": case_kind, "text": text})
        return "budget"
    except Exception as e:  # noqa: BLE001
        PROG.end(n)
        sig = core.exc_signature(e)
        ctx.violation(f"foreign-exception:{sig['type']}:{sig['myst']}", f"options_to_items raised {sig['type']}: {sig['msg']}", {"kind": case_kind, "text": text}, sig)
        return "exc"
    PROG.end(n)
    if PROG.bad:
        ctx.violation("progress:index-not-monotone-or-out-of-range", PROG.bad, {"kind": case_kind, "text": text})
    exp = oracle(text)
    if err is not None:
        idx = err.problem_mark.index
        if not (0 <= idx <= n):
            ctx.violation("error-position-out-of-range", f"TokenizeError index {idx} outside [0,{n}]", {"kind": case_kind, "text": text})
        if exp is not None:
            prob = "".join(c for c in err.problem if not c.isdigit())[:50]
            ctx.violation(f"rejects-subset:{prob}", f"text inside the subset rejected: {err.problem}", {"kind": case_kind, "text": text}, {"expected": exp})
            return "rejects"
        return "outside-error"
    if not (isinstance(got, list) and all(isinstance(p, tuple) and len(p) == 2 and isinstance(p[0], str) and isinstance(p[1], str) for p in got)):
        ctx.violation("result-shape", "result is not a list of (str, str)", {"kind": case_kind, "text": text}, {"got": repr(got)})
    if exp is None:
        return "outside-pairs"
    if got != exp:
        ctx.violation(classify_disagreement(text, exp, got), f"pairs differ from PyYAML: got {got!r} expected {exp!r}", {"kind": case_kind, "text": text}, {"got": got, "expected": exp})
        return "disagree"
    return "agree" if exp else "agree-empty"


def eval_case(ctx, case):
    if case["kind"] == "offsets":
        return eval_offsets(ctx, case)
    if case["kind"] == "directive":
        return eval_directive(ctx, case)
    return run_one(ctx, case["text"], case["kind"])


def eval_offsets(ctx, case):
    """clone(): line/column offsets shift the reported position, nothing else."""
    from myst_parser.parsers.options import TokenizeError, options_to_items

    text, lo, co = case["text"], case["lo"], case["co"]
    PROG.begin(2 * len(text) + 10)
    try:
        options_to_items(text)
        return
    except TokenizeError as e0:
        base = e0
    except (Exception, core.StepBudgetExceeded):  # noqa: BLE001  (judged by run_one on the same text)
        return
    try:
        options_to_items(text, lo, co)
    except TokenizeError as e1:
        pm0, pm1 = base.problem_mark, e1.problem_mark
        if (pm1.line, pm1.column, pm1.index) != (pm0.line + lo, pm0.column + co, pm0.index) or e1.problem != base.problem:
            ctx.violation("offset-clone", "offsets do not shift the error position exactly", case, {"base": [pm0.line, pm0.column, pm0.index], "shifted": [pm1.line, pm1.column, pm1.index]})
    except Exception as e:  # noqa: BLE001
        ctx.violation(f"foreign-exception-offsets:{type(e).__name__}", f"{e!r}", case)
    else:
        ctx.violation("offset-clone", "error disappears when offsets are given", case)


def eval_directive(ctx, case):
    """The tokenizer as reached through parse_directive_text ('---' block and ':' prefix styles)."""
    from docutils.parsers.rst.directives.misc import TestDirective

    from myst_parser.parsers.directives import parse_directive_text

    block = case["block"]
    for style, content in (("dash", "---\n" + block + "\n---\nbody"), ("colon", "\n".join(":" + l for l in block.splitlines()) + "\n\nbody")):
        # what the tokenizer is handed: the '---' block keeps its final newline, the ':' lines are re-joined
        exp = oracle(block + "\n" if style == "dash" else block)
        if exp is None:
            continue
        exp_d = dict(exp)
        if style == "colon" and (len(block.splitlines()) != len(exp) or any(not l or l[0] in " #" for l in block.splitlines())):
            continue  # only one-line-per-entry blocks have a ':' spelling
        PROG.begin(len(content) + 10)
        try:
            r = parse_directive_text(TestDirective, "", content)
        except core.StepBudgetExceeded:
            ctx.violation("termination:step-budget", "scanner exceeded its step budget when reached through parse_directive_text", case)
            continue
        except Exception as e:  # noqa: BLE001
            ctx.violation(f"directive-path-raises:{type(e).__name__}", f"{e!r}", case)
            continue
        ctx.count("via_directive_" + style)
        if r.options != exp_d or r.body != ["body"]:
            ctx.violation(f"directive-path:{style}", "options through parse_directive_text differ from PyYAML", case, {"got": r.options, "expected": exp_d, "body": r.body, "warnings": [w.msg for w in r.warnings]})


# ------------------------------------------------------------------------------------------ generators


def gen_block(R):
    def ws():
        return R.choice(["", " ", "  "])

    def word():
        return R.choice(["a", "b1", "x-y", "k_2", "é", "1", "true", "~", "a:b", "a#b", "-x", "?q", "!t", "&a", "*a", "%d", "@at", "`bt", "[l", "{m", "]", "}", ",c", "a:", "::", "\t", "a\tb", "\u2028", "\x85",
                         # characters that are blank for a regex \\s / str.isspace() but ordinary characters for YAML
                         "10\u00a0km", "Mount\u3000Fuji", "thin\u2009sp", "nn\u202fbsp", "og\u1680ham", "ms\u205fp", "\u00a0", "zw\u200bsp", "bom\ufeffx", "日本", "😀"])

    def plain_line():
        return " ".join(word() for _ in range(R.randint(1, 3)))

    def plain_multi():
        lines = [plain_line()]
        for _ in range(R.randint(0, 3)):
            lines.append(R.choice([" ", "  ", "   ", "\t", ""]) + R.choice([plain_line(), plain_line(), "", "# c", "#c"]))
        return "\n".join(lines)

    def squote():
        body = "".join(R.choice(["a", "b", " ", "''", '"', "\\", "\n ", "\n\n  ", "#", ":", "\t", "\n", " \n \n "]) for _ in range(R.randint(0, 6)))
        return "'" + body + "'"

    def dquote():
        body = "".join(
            R.choice(["a", "b", " ", "'", '\\"', "\\\\", "\\n", "\\t", "\\x41", "\\u00e9", "\\U0001F600", "\\\n  ", "\n ", "\n\n  ", "#", ":", "\\ ", "\\/", "\\e", "\\_", "\\N", "\\L", "\\P", "\\0", "\\a", "\\b", "\\v", "\\f", "\\r", "\\\t", "\\xZZ", "\\u12", "\\UFFFFFFFF", "\\U00110000", "\\U0010FFFF", "\\uD800", "\\q", "\\\r\n ", "\t", " \n \n ",
                      # numeric escapes whose body is not made of hex digits only (sign, separator, space, prefix, too short at end of text)
                      "\\x-1", "\\x+1", "\\x_1", "\\x 1", "\\u-041", "\\u00_1", "\\u 041", "\\U-0000041", "\\U+0000041", "\\U0000_041", "\\x0x", "\\u0x41", "\\x", "\\u", "\\U", "\\x4", "\\u004", "\\U0000004"])
            for _ in range(R.randint(0, 6))
        )
        return '"' + body + '"'

    def block():
        style = R.choice("|>")
        ind = R.choice(["", "", "1", "2", "3", "9", "0"])
        chomp = R.choice(["", "", "+", "-"])
        hdr = style + R.choice([ind + chomp, chomp + ind]) + R.choice(["", " ", " # c", "  #c", " x", "#c"])
        base = int(ind) if ind and ind != "0" else R.randint(1, 3)
        lines = []
        for _ in range(R.randint(0, 6)):
            k = R.choice([0, 0, 0, 1, 2])
            lines.append(R.choice([" " * (base + k) + plain_line(), "", " " * R.randint(0, base), " " * base + "# nc", " " * base + "\ttab", " " * (base + k) + "x", "\t"]))
        tail = R.choice(["", "\n", "\n\n", "\n  \n"])
        return hdr + "\n" + "\n".join(lines) + tail

    def key():
        return R.choice([word, word, lambda: "'" + R.choice(["a", "a b", "a''b", "k:", ""]) + "'", lambda: '"' + R.choice(["a", "a b", "a\\tb", "k:", ""]) + '"'])()

    def entry():
        k = key()
        v = R.choice([plain_line, plain_multi, squote, dquote, block, lambda: "", plain_line])()
        sep = ":" + R.choice([" ", " ", "  ", "\t"]) if v else ":" + ws()
        cm = R.choice(["", " # cmt", "", " #"])
        if v and v[0] in "|>":
            cm = ""
        return R.choice(["", "", "", " "]) + k + ws() + sep + v + cm

    parts = []
    for _ in range(R.randint(1, 4)):
        parts.append(R.choice(["", "", "# full comment", "   ", None, None]))
        parts.append(entry())
    nl = R.choice(["\n", "\n", "\n", "\r\n", "\r"])
    return R.choice(["", "", "\ufeff"]) + nl.join(p for p in parts if p is not None) + R.choice(["", "\n"])


def enum_strings(alpha, maxlen, shard, nshards, skip_common):
    """Strings over ``alpha`` up to ``maxlen``; partitioned over shards by their 2-char prefix."""
    if shard == 0:
        for ln in range(0, min(2, maxlen + 1)):
            for t in itertools.product(alpha, repeat=ln):
                yield "".join(t)
    pi = 0
    for p in itertools.product(alpha, repeat=2):
        pi += 1
        if pi % nshards != shard:
            continue
        pre = "".join(p)
        for ln in range(0, maxlen - 1):
            for t in itertools.product(alpha, repeat=ln):
                s = pre + "".join(t)
                if skip_common and COMMON.issuperset(s):
                    continue
                yield s


def run_shard(ctx):
    R = ctx.rng
    quick = ctx.tier == "quick"
    outcomes = ctx.counters
    # --- 1. exhaustive enumerations
    plan = [("A1", A1, 5 if quick else 7, False), ("A2", A2, 5 if quick else 6, True), ("A3", A3, 5 if quick else 6, True)]
    for name, alpha, maxlen, skip in plan:
        n = nt = 0
        complete = True
        for s in enum_strings(alpha, maxlen, ctx.shard, ctx.nshards, skip):
            outcomes[run_one(ctx, s)] += 1
            n += 1
            if ":" in s:
                nt += 1
            if (n & 0x3FFF) == 0 and ctx.out_of_time():
                complete = False
                break
        ctx.case(n=n)
        ctx.enumerated(nt)
        ctx.subrun(f"exhaustive_{name}", exhaustive=complete, max_len=maxlen, alphabet=alpha, strings=n)
    # --- 2. the same enumeration in value position
    valpha = "a '\"\n#|>-\\:+1"
    vmax = 4 if quick else 5
    n = 0
    complete = True
    for s in enum_strings(valpha, vmax, ctx.shard, ctx.nshards, False):
        for text in ("k: " + s, "k: " + s + "\nj: v", "k:\n" + s):
            outcomes[run_one(ctx, text)] += 1
            n += 1
        if (n & 0x3FFF) < 3 and ctx.out_of_time():
            complete = False
            break
    ctx.case(n=n)
    ctx.enumerated(n)
    ctx.subrun("exhaustive_value_position", exhaustive=complete, max_len=vmax, alphabet=valpha, strings=n)
    # --- 2b. bodies of the numeric escapes of double-quoted scalars (sign, separator, space, prefix, quote, too short)
    import itertools as _it

    ealpha = "0A-+_ x\""
    n = 0
    for esc, width in (("x", 2), ("u", 4), ("U", 3)):
        for ln in range(0, width + 1):
            for body in _it.product(ealpha, repeat=ln):
                n += 1
                if n % ctx.nshards != ctx.shard:
                    continue
                b = "".join(body) + ("00041" if esc == "U" and ln == width else "")
                for text in (f'k: "\\{esc}{b}"', f'"\\{esc}{b}": v', f'k: "\\{esc}{b}'):
                    outcomes[run_one(ctx, text)] += 1
                    ctx.case(n=1)
                    ctx.enumerated(1)
    ctx.subrun("exhaustive_escape_bodies", exhaustive=True, alphabet=ealpha, bodies=n)
    # --- 3. grammar-generated blocks (+ offsets, + through the directive parser)
    n_g = 20000 if quick else 250000
    for i in range(n_g):
        t = gen_block(R)
        tag = run_one(ctx, t, "block")
        outcomes["grammar_" + tag] += 1
        ctx.case(("block", t), ":" in t)
        if i < 2:
            ctx.sample({"kind": "block", "text": t, "outcome": tag})
        if i % 5 == 0 and tag not in ("budget", "exc"):
            eval_offsets(ctx, {"kind": "offsets", "text": t, "lo": R.randint(0, 50), "co": R.randint(0, 9)})
        if tag == "agree" and not any(l.strip() == "" and l for l in t.splitlines()) and not (set(t) & set("\r\ufeff\x0b\x0c\x1c\x1d\x1e\x85\u2028\u2029")) and not any(l.startswith("---") for l in t.splitlines()):
            eval_directive(ctx, {"kind": "directive", "block": t.rstrip("\n")})
        if (i & 0xFF) == 0 and ctx.out_of_time():
            break
    # --- 4. soup
    soup_alpha = list(A1 + A2 + A3 + "é\U0001f600{}[],&*!%@`?") + ["\\x41", "\\u00e9", "\\U0001F600", "\\UFFFFFFFF", "k: ", "\n  ", ": |\n  ", ': "', ": '"]
    n_s = 20000 if quick else 250000
    for i in range(n_s):
        t = "".join(R.choice(soup_alpha) for _ in range(R.randint(1, 40)))
        outcomes["soup_" + run_one(ctx, t, "soup")] += 1
        ctx.case(("soup", t), ":" in t)
        if (i & 0xFF) == 0 and ctx.out_of_time():
            break
    # long inputs: the step budget is linear in n
    for t in ("k: " + "a " * 20000, "k: |\n" + "  x\n" * 5000, 'k: "' + "\\n" * 10000 + '"', "#" * 50000, "\n" * 50000, "k: >\n" + " \n" * 3000 + "  x"):
        outcomes["long_" + run_one(ctx, t, "long")] += 1
        ctx.case(("long", t[:20], len(t)))
    ctx.notes["max_steps_per_char_ratio"] = round(PROG.max_ratio, 2)
    ctx.notes["step_budget"] = "1000*(n+10) loop iterations+forward calls per call"
    ctx.notes["jump_events_observed"] = PROG.events
    ctx.notes["code_objects_monitored"] = PROG.code_objects
    ctx.count("jump_events", PROG.events)


def finalize(m, tier):
    c = m["counters"]
    if c.get("agree", 0) + c.get("grammar_agree", 0) < 1000:
        m["inconclusive"].append("fewer than 1000 in-subset agreements observed: the equality oracle decided too little")
    if c.get("outside-error", 0) < 1000:
        m["inconclusive"].append("fewer than 1000 TokenizeError outcomes observed")
    if c.get("jump_events", 0) == 0:
        m["inconclusive"].append("the step monitor never received a JUMP event (hook not reached)")
    if c.get("via_directive_dash", 0) == 0:
        m["inconclusive"].append("tokenizer never reached through parse_directive_text")
