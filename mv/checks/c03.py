"""C03 - every produced document is a well-formed docutils tree.

Invariant-at-the-API-boundary monitor (mv.oracle.check_tree) run on every doctree a hostile workload produces, directly
after Parser.parse and again after the full transform pipeline.
"""

from __future__ import annotations

import ast
import re
import urllib.parse
import random

from .. import core, drive, mon, oracle
from ..gen import doc as G

PROP = "C03"
RULE = (
    "documents from the marker grammar (all block/inline kinds, thematic breaks and headings inside containers), risky-shape "
    "templates (ragged tables, duplicate ids/targets/footnote labels, hr/heading/table/footnote/target in every container, "
    "directives returning sections) and token soup, under random valid configurations; each is checked after parse and after "
    "transforms; through Sphinx also invariant 5 on the resolved doctree against the warning stream, every risky shape alone; distinct by hash of (text, config); non-trivial = the parsed tree has >= 2 container levels or >= 1 id"
)
ASSUME = [
    "halt_level=5 (docutils' default 4 raises SystemMessage for SEVERE by docutils design)",
    "ids of messages still pending in document.transform_messages/parse_messages count as present (publish_doctree's null writer does not attach them)",
    "a pipeline that raises produces no document: that is C01's refuting event, counted here as 'no_document' and not judged",
]
SHARDS = {"quick": 16, "thorough": 16}
BUDGET_S = {"quick": 32, "thorough": 900}
ANCHORS = ["DocutilsRenderer.render_heading", "DocutilsRenderer.update_section_level_state", "DocutilsRenderer.render_hr", "DocutilsRenderer.render_table", "DocutilsRenderer.render_footnote_reference",
           "CollectFootnotes.apply", "ResolveAnchorIds.apply", "html_to_nodes.html_to_nodes", "MockState.nested_parse", "DocutilsRenderer.render_myst_target", "DocutilsRenderer.copy_attributes"]

CONT = {
    "quote": lambda L: ["> " + l if l else ">" for l in L],
    "bullet": lambda L: [("- " if i == 0 else "  ") + l if l else "" for i, l in enumerate(L)],
    "ordered": lambda L: [("1. " if i == 0 else "   ") + l if l else "" for i, l in enumerate(L)],
    "note": lambda L: ["````{note}"] + L + ["````"],
    "admonition": lambda L: ["````{admonition} T", ":name: adm-name"] + L + ["````"],
    "colon": lambda L: ["::::{tip}"] + L + ["::::"],
    "div": lambda L: [":::::", ""] + L + [":::::"],
    "container": lambda L: ["````{container} c"] + L + ["````"],
    "topic": lambda L: ["````{topic} T"] + L + ["````"],
    "sidebar": lambda L: ["````{sidebar} T"] + L + ["````"],
    "figure": lambda L: ["````{figure} i.png", "cap", ""] + L + ["````"],
    "deflist": lambda L: ["term"] + [(":   " if i == 0 else "    ") + l if l else "" for i, l in enumerate(L)],
    "footnote": lambda L: ["[^cf]: x", ""] + ["    " + l if l else "" for l in L] + ["", "ref[^cf]"],
    "table_directive": lambda L: ["````{list-table}", "- - a"] + ["    " + l if l else "" for l in L] + ["````"],
    "fieldlist": lambda L: [(":f: " if i == 0 else "    ") + l if l else "" for i, l in enumerate(L)],
}
RISKY = [
    ["***"], ["---"], ["a", "", "***", "", "b"], ["***", "", "b"], ["a", "", "***"], ["# h"], ["h", "==="], ["## h", "", "# g"], ["| a | b |", "|---|---|", "| 1 |", "| 1 | 2 | 3 |"],
    ["| a |", "|---|"], ["[^d]: one", "", "[^d]: two", "", "r[^d]"], ["[^q]: unreferenced"], ["r[^nodef]"], ["(tt)=", "# h"], ["(tt)=", "", "(tt)=", "para"], ["(h)=", "# h", "", "[](#h)"],
    ["para {#pid}", "", "para2 {#pid}"], ["{#bid}", "para", "", "{#bid}", "para2"], ["# same", "", "# same", "", "[a](#same) [b](#same-1)"], ["[x](#missing)", "[](#missing2)"], ["<project:#missing3>"],
    ["```{figure} i.png", ":name: fg", "cap", "```", "", "```{figure} j.png", ":name: fg", "cap", "```"], ["```{contents}", "```"], ["```{sectnum}", "```"], ["```{target-notes}", "```"],
    ["```{eval-rst}", "Title", "=====", "", ".. _lbl:", "", "text lbl_", "```"], ["```{eval-rst}", ".. [#] auto", "", "ref [#]_", "```"], ["```{table} T", ":name: tb", "| a |", "|---|", "```"],
    ["```{math}", ":label: eq1", "x", "```", "", "{eq}`eq1`"], ["$$x$$ (lbl)", "", "$$y$$ (lbl)"], ["![a](i.png){#im .c}", "![a](i.png){#im}"], ["[t]{#sp}", "[u]{#sp}"], ["```{code-block} c", ":name: cb", "x", "```"],
    ["term", ": def", "", "term", ": def2"], ["<div class=\"admonition\" name=\"hn\"><p class=\"title\">T</p>x</div>"], ["<img src=\"a.png\" name=\"hn\">", "", "<img src=\"b.png\" name=\"hn\">"],
    ["- [^li]: in list", "", "x[^li]"], ["> [^bq]: in quote", "", "x[^bq]"], ["[^1]: one", "[^2]: two", "", "a[^2] b[^1] c[^auto]", "", "[^auto]: A"], ["{{ k }}", "", "{{ k2 }}"], ["+++", "", "% c"],
    # names shared between footnotes and later / earlier explicit targets of every kind
    ["x[^nm] y[^ot]", "", "[^nm]: footnote", "", "[^ot]: other", "", "(nm)=", "para"], ["x[^nm]", "", "[^nm]: footnote", "", "{#nm}", "para"], ["x[^nm]", "", "[^nm]: footnote", "", "```{note}", ":name: nm", "b", "```"],
    ["x[^nm]", "", "[^nm]: footnote", "", "$$a$$ (nm)"], ["(nm)=", "para", "", "x[^nm]", "", "[^nm]: footnote"], ["# nm", "", "x[^nm]", "", "[^nm]: footnote", "", "[](#nm)"], ["[^1]: one", "", "(1)=", "p", "", "x[^1] [](#1)"],
    ["x[^a] y[^a]", "", "[^a]: A", "", "[^b]: B unreferenced", "", "(b)=", "p"],
    # links of every kind that carry their own id / class (attrs_inline), towards local, other-page and missing targets
    ["[x](#far-target){#lnk .c}", "", "[y](#far-target){#lnk2}", "", "[z](#nowhere-at-all){#lnk3}"], ["[x](other.md){#lnkd} [y](other.md#far){#lnke} [](other.md){#lnkf}"],
    ["[x](https://e.org){#lnku .c} <https://e.org>{#lnka} [w](wiki:A){#lnkw}"], ["[x](inv:k#alpha){#lnki} [p](path:other.md){#lnkp} [q](project:other.md){#lnkq}"],
    ["# Local", "", "[a](#local){#la} [](#local){#lb} [c](#far-target){#la}"], ["`code`{#cid .c} *em*{#eid} [span]{#sid} ![i](x.png){#iid} $m${#mid}"],
    ["> [x](#far-target){#qlnk}", "", "- [y](#far-target){#llnk}", "", "```{note}", "[z](#far-target){#nlnk}", "```"],
    # substitutions whose text carries ids, used more than once (every use is a fresh rendering)
    ["{{ kf }}", "", "{{ kf }}", "", "[^sf]: note"], ["a {{ ks }} b {{ ks }} c", "", "{{ ks }}"], ["{{ kt }}", "", "{{ kt }}", "", "[](#subt)"], ["{{ km }}", "", "{{ km }}"], ["{{ kn }}", "", "{{ kn }}", "", "[](#subname)"],
    ["x {{ ki }} y {{ ki }}"], ["{{ kfn }}", "", "{{ kfn }}", "", "r[^sfn]"], ["> {{ kf }}", "", "- {{ kf }}", "", "[^sf]: note"],
    # explicit ids whose spelling is not the normalised one (upper case, '_', '.', non-ASCII), used twice
    ["{#Fig_1}", "para", "", "{#Fig_1}", "para2", "", "[a](#Fig_1) [b](#fig-1)"], ["[t]{#Sp_A} [u]{#Sp_A} [v]{#sp-a}"], ["# h {#Head_X}", "", "## g {#Head_X}", "", "[](#Head_X)"], ["![a](i.png){#Im_G}", "", "![b](j.png){#Im_G}"],
    ["{#ÜbEr}", "p1", "", "{#über}", "p2", "", "{#UBER}", "p3"], ["```{note}", ":name: My_Name", "x", "```", "", "```{tip}", ":name: My_Name", "y", "```"], ["(My_Target)=", "p", "", "(my-target)=", "q", "", "(My_Target)=", "r"],
    # links that name the page's own file plus an explicit target whose spelling is not its id
    ["(My_Target)=", "para", "", "[t](index.md#My_Target) [](index.md#my_target) <project:index.md#My_Target> [u](./index.md#My_Target)"], ["```{note}", ":name: Fig.One", "x", "```", "", "[t](index.md#Fig.One) [](index.md#fig-one) [m](index.md#Nowhere_At.All)"],
    ["{#Para_Id}", "para", "", "[t](index.md#Para_Id) [](#Para_Id) [v](index.md#para-id)"], ["# Head Line", "", "[t](index.md#head-line) [u](index.md#Head-Line) [v](index.md#Head Line)"],
    # containers that hold nothing but footnote definitions (which a transform moves away) and are link targets themselves
    ["(notes)=", "> [^qa]: in a quote", "", "x[^qa] [t](#notes) [](#notes)"], ["{#qid}", "> [^qb]: only a footnote", "> [^qc]: and another", "", "y[^qb] z[^qc] [u](#qid)"], ["(lst)=", "- [^qd]: in a list", "", "z[^qd] [v](#lst)"],
    ["(nt)=", "```{note}", "[^qe]: in a note", "```", "", "w[^qe] [n](#nt)"], ["> (inner)=", "> > [^qf]: nested quote", "", "v[^qf] [i](#inner)"], ["{#did}", ":::{tip}", "[^qg]: in a colon fence", ":::", "", "u[^qg] [d](#did)"],
    # inline constructs inside text that is only used as a plain string (an image's alt text)
    ["![Result [^ia]](fig.png)", "", "[^ia]: note for the image"], ["![alt {{ kf }} `c` $m$ [span]{#altid}](fig.png)", "", "[^sf]: note"], ["![a (tgt-in-alt)= [l](#far-target)](i.png) [^ib]", "", "[^ib]: n"],
    # html blocks that are only partly convertible, their names linked to
    ['<img src="a.png" name="hx"><b>tail</b>', "", "[t](#hx) [](#hx)"], ['<div class="admonition" name="ha"><p>x</p></div><span>tail</span>', "", "[t](#ha)"], ['<img src="a.png" name="hy"><img alt="nosrc">', "", "[t](#hy)"],
    ['<img src="a.png" name="hz">', '<div class="admonition" name="hz"><p>x</p></div>', "", "[t](#hz)"], ['text <img src="a.png" name="hi"> <b>b</b> [t](#hi)'], ['<div class="admonition" name="hq">', "<img src=\"q.png\" name=\"hq2\">", "</div>", "", "[a](#hq) [b](#hq2)"],
    # headings inside directives that allow sections in their body
    ["# top", "", "````{mv-titled}", "## inner", "", "text", "", "#### deeper", "````", "", "### after"], ["````{mv-titled}", "# first heading of the document", "", "## sub", "````"],
    ["## h2", "", "````{mv-titled}", "### inner3", "", "# inner1", "````"], ["````{only} html", "## only heading", "", "text", "````"], ["# t", "", "````{only} html", "### skip", "````", "", "## u"],
]


EVALRST_NODES: set = set()


def setup(ctx):
    """Tag every node that comes out of an {eval-rst} block (hook on render_restructuredtext, observing only)."""
    from docutils import nodes

    from myst_parser.mdit_to_docutils.base import DocutilsRenderer

    orig = DocutilsRenderer.render_restructuredtext

    def tagging(self, token):
        before = len(self.current_node.children)
        r = orig(self, token)
        for ch in self.current_node.children[before:]:
            for n in ch.findall(nodes.Element):
                EVALRST_NODES.add(id(n))
                KEEP.append(n)
        return r

    DocutilsRenderer.render_restructuredtext = tagging
    # remember which bare containers were handed to a DIRECTIVE's nested parse: only a tree thrown away by a directive is the recorded finding
    from myst_parser.mocking import MockState

    orig_np = MockState.nested_parse
    oracle.SCRATCH = []

    def noting(self, block, input_offset, node, *a, **kw):
        if type(node) is nodes.Element:
            oracle.SCRATCH.append(node)
            del oracle.SCRATCH[:-400]
        return orig_np(self, block, input_offset, node, *a, **kw)

    MockState.nested_parse = noting
    from .c05 import register_titled_directive

    register_titled_directive()  # a directive that nested-parses with match_titles=True (what Sphinx' ``only`` does)
    mon.start_reach(ctx)


KEEP: list = []  # keeps tagged nodes alive so that id() values are not reused within one case


def teardown(ctx):
    mon.finish_reach(ctx, ANCHORS)


def eval_case(ctx, case):
    from docutils import nodes

    if case.get("kind") == "suite":
        return False  # witnesses from the test-suite run are replayed by running the suite again
    if case.get("front_end") == "sphinx":
        return eval_sphinx_tree(ctx, case)
    text, cfg = case["text"], case.get("cfg", {})
    kw = G.cfg_to_overrides(cfg)
    stages = {}
    EVALRST_NODES.clear()
    KEEP.clear()

    def report(stage, res, extra):
        for key, what, *ns in res:
            if key.split(":")[0] in ("ids", "section", "footnote", "refid", "backref") and any(id(n) in EVALRST_NODES for n in ns):
                key = "eval-rst:separate-document-registries"
                what = f"[{stage}] node produced by an {{eval-rst}} block: {what}"
            else:
                what = f"[{stage}] {what}"
            ctx.violation(key, what, case, extra)

    def on_parsed(doc):
        stages["parsed"] = oracle.check_tree(doc, "parsed")
        depth = 0
        for n in doc.findall(nodes.Element):
            d, p = 0, n
            while p.parent is not None:
                p, d = p.parent, d + 1
            depth = max(depth, d)
        stages["nontrivial"] = depth >= 3 or bool(doc.ids)

    try:
        doc, wtext = drive.parse_staged(text, on_parsed, doctitle_xform=case.get("doctitle", False), **case.get("settings", {}), **kw)
    except Exception as e:  # noqa: BLE001
        ctx.count("no_document:" + type(e).__name__)
        doc = None
    report("after parse", stages.get("parsed", []), None)
    if "parsed" in stages:
        ctx.count("trees_checked_after_parse")
    if doc is not None:
        report("after transforms", oracle.check_tree(doc, "transformed"), {"warnings": wtext[-600:]})
        for k, v in oracle.check_tree.last_diag.items():
            ctx.count("diag:" + k, v)
        ctx.count("trees_checked_after_transforms")
        ctx.count("footnotes_seen", sum(1 for _ in doc.findall(nodes.footnote)))
        ctx.count("tables_seen", sum(1 for _ in doc.findall(nodes.table)))
        ctx.count("sections_seen", sum(1 for _ in doc.findall(nodes.section)))
        ctx.count("refids_seen", sum(1 for n in doc.findall(nodes.Element) if n.get("refid")))
        ctx.count("ids_seen", len(doc.ids))
    return bool(stages.get("nontrivial"))


def eval_sphinx_tree(ctx, case):
    """The same structural invariants on the doctrees a Sphinx build produces (after read and after post-transforms).
    Link-resolution invariants (5) are not judged here: Sphinx resolves references in its own later phases."""
    from docutils import nodes

    cfg = {k: v for k, v in case.get("cfg", {}).items() if k not in ("highlight_code_blocks", "suppress_warnings", "inventories")}
    b = drive.SphinxBuild({"index.md": case["text"], "other.md": "---\norphan: true\n---\n# Other\n\n(far-target)=\n## Far\n\ntext\n"}, conf={"myst_" + k: v for k, v in cfg.items()} | {"keep_warnings": True}, builder="dummy")
    try:
        try:
            b.build()
            trees = {"sphinx-read": b.doctree("index"), "sphinx-resolved": b.resolved("index")}
        except Exception as e:  # noqa: BLE001
            ctx.count("no_document:sphinx:" + type(e).__name__)
            return False
        for stage, doc in trees.items():
            res = [r for r in oracle.check_tree(doc, "parsed") if r[0].split(":")[0] in ("tree", "section", "transition", "table") or r[0] == "ids:duplicate"]
            for key, what, *ns in res:
                if key.split(":")[0] in ("ids", "section") and "{eval-rst}" in case["text"]:
                    ctx.count("sphinx_evalrst_not_judged")  # node provenance tags do not survive Sphinx' doctree pickling
                    continue
                if key == "ids:duplicate" and "id 'equation-" in what:
                    key = "ids:duplicate:sphinx-equation-label"
                ctx.violation(key, f"[{stage}] {what}", case, None)
            ctx.count("sphinx_trees_checked")
        # (5) through Sphinx: after resolution an internal link names an id of the page, or a 'not found' warning naming its target was logged
        doc = trees["sphinx-resolved"]
        present = {i for n in doc.findall(nodes.Element) for i in n.get("ids", [])}
        recs = None
        for n in doc.findall(nodes.reference):
            rid = n.get("refid")
            if rid is None:
                continue
            ctx.count("sphinx_internal_links_checked")
            if rid in present:
                continue
            if recs is None:
                recs = [r["msg"] for r in b.stream_records()]
            uq = urllib.parse.unquote(rid)

            def _names(m):
                # the message shows the target's repr; the refid is that target percent-encoded (already encoded parts are left alone)
                mm = re.search(r"not found[^:]*: (('|\").*\2)", m, re.S)
                if mm:
                    try:
                        t_ = ast.literal_eval(mm.group(1))
                        return t_ == rid or urllib.parse.unquote(t_) == uq
                    except Exception:  # noqa: BLE001
                        pass
                return False

            if any("not found" in m and (rid.lower() in m.lower() or uq.lower() in m.lower() or repr(uq)[1:-1].lower() in m.lower() or _names(m)) for m in recs):
                ctx.count("sphinx_dangling_links_with_warning")
                continue
            if "{eval-rst}" in case["text"]:
                continue
            ctx.violation("refid:dangling:sphinx-resolved", f"[sphinx-resolved] <reference> refid {rid!r} names no id of the page and no 'not found' warning names it", case, {"warnings": recs[:20], "node": str(n)[:300]})
    finally:
        b.close()
    return True


def risky(R):
    parts = []
    for _ in range(R.randint(1, 4)):
        L = list(R.choice(RISKY))
        for _ in range(R.choice([0, 0, 1, 1, 2])):
            L = CONT[R.choice(list(CONT))](L)
        parts += L + [""]
    return "\n".join(parts) + "\n"


def make_case(R, i):
    k = i % 4
    cfg = G.random_config(R, allow_modes=False)
    if k == 0:
        g = G.Gen(R, hr_in_container=True, max_depth=R.randint(2, 5))
        text, _ = g.document(2, 7)
        cfg.setdefault("substitutions", dict(G.SUBSTITUTIONS))
        kind = "grammar"
    elif k == 1:
        text, kind = risky(R), "risky"
        cfg["enable_extensions"] = list(G.ALL_EXT)
        cfg["substitutions"] = {"k": "# heading from substitution", "k2": "***", "kf": "text[^sf] more", "ks": "[span]{#subid} `c`{#subcode}", "kt": "(subt)=\npara from substitution", "km": "$$x$$ (sublbl)",
                                "kn": "```{note}\n:name: subname\nx\n```", "ki": "![a](i.png){#subimg}", "kfn": "[^sfn]: defined in a substitution"}
    elif k == 2:
        text, kind = G.soup(R), "soup"
    else:
        g = G.Gen(R, hr_in_container=True)
        text, _ = g.document(1, 4)
        text = G.mutate(R, text, R.randint(1, 5))
        kind = "mutated"
    settings = {}
    if R.random() < 0.15:
        settings["raw_enabled"] = False  # docutils security switches: Parser.parse post-processes the tree
    if R.random() < 0.1:
        settings["file_insertion_enabled"] = False
    if R.random() < 0.1:
        settings["report_level"] = R.choice([1, 3, 4])
    return {"kind": kind, "text": text, "cfg": cfg, "doctitle": R.random() < 0.3, "settings": settings}


def run_suite_with_monitor(ctx):
    """Shard 0: the repository's own test suite with the tree-invariant monitor attached as a pytest plugin (observing only)."""
    import json
    import os
    import subprocess
    import sys
    import tempfile

    out = tempfile.mktemp(prefix="c03_suite_", suffix=".json")
    env = dict(os.environ, MV_MONITOR_OUT=out, PYTHONPATH=os.pathsep.join([core.REPO, core.VERIF]))
    try:
        p = subprocess.run([sys.executable, "-m", "pytest", "-q", "-p", "no:cacheprovider", "-p", "mv.pytest_monitor", "-x", "--co", "-q"], cwd=core.REPO, env=env, capture_output=True, text=True, timeout=300)
        p = subprocess.run([sys.executable, "-m", "pytest", "-q", "-p", "no:cacheprovider", "-p", "mv.pytest_monitor"], cwd=core.REPO, env=env, capture_output=True, text=True, timeout=900)
        d = json.load(open(out))
    except Exception as e:  # noqa: BLE001
        ctx.note_inconclusive(f"the repository test suite could not be run with the monitor attached: {e!r}")
        return
    finally:
        if os.path.exists(out):
            os.remove(out)
    ctx.count("suite_tests_run", d["tests"])
    ctx.count("suite_trees_checked", d["trees"])
    ctx.count("suite_config_snapshots_checked", d["snapshot_checks"])
    ctx.notes["suite_warning_tags"] = d["tags"]
    for key, n in d["violations"].items():
        w = d["witness"].get(key, {})
        ctx.violation(key, f"[repository test suite, after parse] {w.get('what', key)} ({n}x)", {"kind": "suite", "text": w.get("text", "")}, None)
    if d["snapshot_violations"]:
        ctx.violation("suite:global-config-modified-by-parse", "env.myst_config changed across a MystParser.parse call in the repository test suite", {"kind": "suite", **d["witness"].get("snapshot", {})}, None)


def run_shard(ctx):
    R = ctx.rng
    if ctx.shard == 0:
        run_suite_with_monitor(ctx)
    n = 6000 if ctx.tier == "quick" else 200000
    for i in range(12 if ctx.tier == "quick" else 800):
        case = make_case(R, i)
        case["front_end"] = "sphinx"
        eval_case(ctx, case)
        ctx.case(("sphinx", case["text"], repr(case["cfg"])), True)
        if ctx.time_left() < ctx.budget_s * 0.75:
            break
    # every risky shape on its own through the Sphinx front end (partitioned over the shards)
    rcfg = {k: v for k, v in make_case(random.Random(1), 1)["cfg"].items() if k in ("enable_extensions", "substitutions")}
    for k, shape in enumerate(RISKY):
        if k % ctx.nshards != ctx.shard:
            continue
        case = {"kind": "risky", "text": "\n".join(shape) + "\n", "cfg": rcfg, "doctitle": False, "settings": {}, "front_end": "sphinx"}
        eval_case(ctx, case)
        ctx.case(("sphinx-risky", k), True)
        ctx.count("sphinx_risky_shapes_alone")
    ctx.subrun("sphinx_risky_shapes", exhaustive=True, shapes=len(RISKY) if ctx.shard == 0 else 0)
    for i in range(n):
        case = make_case(R, i)
        nt = eval_case(ctx, case)
        ctx.case((case["text"], repr(case["cfg"])), nt)
        ctx.count("kind:" + case["kind"])
        if i < 2:
            ctx.sample({"kind": case["kind"], "text": case["text"][:400], "cfg": case["cfg"]})
        if (i & 0x1F) == 0 and ctx.out_of_time():
            break


def finalize(m, tier):
    c = m["counters"]
    for k, lo in (("trees_checked_after_parse", 5000), ("trees_checked_after_transforms", 5000), ("footnotes_seen", 500), ("tables_seen", 500), ("sections_seen", 2000), ("refids_seen", 1000), ("ids_seen", 5000), ("suite_trees_checked", 300), ("suite_tests_run", 1000), ("sphinx_trees_checked", 150)):
        if c.get(k, 0) < lo:
            m["inconclusive"].append(f"monitor observed only {c.get(k, 0)} '{k}' events (< {lo})")
    nodoc = sum(v for k, v in c.items() if k.startswith("no_document:"))
    if nodoc > 0.05 * max(1, m["evaluations"]):
        m["inconclusive"].append(f"{nodoc} of {m['evaluations']} pipelines produced no document (> 5%): invariants not applicable")
    mon.require_reach(m, ANCHORS)
