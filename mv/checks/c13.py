"""C13 - config is validated and normalised; overrides behave the same at every level.

Monitors: (a) acceptance - an independent predicate per field written from the documented types vs what
MdParserConfig(**{f: v}) does; (b) normalisation of equivalent spellings; (c) entry-point differential - constructor,
copy(), merge_file_level, real front matter (config captured at create_md_parser), docutils option strings, Sphinx conf
values; (d) effect equivalence of a global vs a front-matter setting on documents that exercise the option; (e) invalid
front-matter values are ignored with exactly one [myst.topmatter] warning; (f) snapshot contract - the global
configuration object / docutils settings are deep-equal before and after every merge and parse.
"""

from __future__ import annotations

import shutil
import os
import typing
import copy
import io
import json
import re
import types

import yaml

from .. import core, drive, mon
from ..gen import doc as G

PROP = "C13"
RULE = (
    "(field, value, entry point) triples: every MdParserConfig field x a value pool of every JSON/YAML type (valid spellings, "
    "wrong type, nested wrong type, None, bool/float for int, str for list) x {constructor, copy, merge_file_level, front "
    "matter of a parsed document, docutils option string, Sphinx conf value} - enumerated completely (distinct by "
    "construction); effect-equivalence pairs (option table x generated documents) and invalid-front-matter documents are "
    "random (distinct by hash); option STRINGS (30 per dictionary option, 15 per integer option, every spelling of a valid value) are accepted on the command line and in a docutils.conf exactly "
    "when the constructor accepts the deserialised value (exhaustive); non-trivial = the value is not the field's default"
)
ASSUME = [
    "documented types are the field annotations / doc_type metadata shown in docs/configuration.md; bool counts as int (Python semantics) and is not judged for int fields, nor is a float equal to an allowed integer",
    "sets, tuples and callables cannot be written in YAML front matter and are skipped for that entry point; invalid values are not fed to the docutils command-line parser (optparse exits the process by design)",
]
SHARDS = {"quick": 8, "thorough": 16}
BUDGET_S = {"quick": 45, "thorough": 900}
ANCHORS = ["main.merge_file_level", "main.read_topmatter", "main.check_extensions", "main.check_url_schemes", "main.check_heading_slug_func", "main.check_fence_as_directive", "docutils_.create_myst_config", "dc_validators.validate_fields",
           "main.create_myst_config"]

CAPTURED = []


def setup(ctx):
    import myst_parser.parsers.docutils_ as D

    orig = D.create_md_parser

    def spy(config, renderer):
        CAPTURED.append(config)
        return orig(config, renderer)

    D.create_md_parser = spy
    mon.start_reach(ctx)


def teardown(ctx):
    mon.finish_reach(ctx, ANCHORS)


# every spelling of the front-matter fences that the Markdown front-matter rule accepts (3+ dashes, a closing fence at least as long, trailing blanks)
FENCES = [("---", "---"), ("---", "-----"), ("----", "----"), ("---", "---  "), ("---  ", "---"), ("----", "------"), ("---", "---")]


NONDEFAULT_BASES = [{"footnote_sort": False, "footnote_transition": True}, {"footnote_sort": False}, {"commonmark_only": True}, {"enable_extensions": ["deflist", "html_image"], "heading_anchors": 3, "all_links_external": True},
                    {"update_mathjax": False, "mathjax_classes": "a|b"}, {"title_to_header": True, "words_per_minute": 100}, {"url_schemes": ["http"], "ref_domains": ["py"]}]


def fm_wrap(case, dumped):
    o, c = FENCES[(case.get("seed", 0) + case.get("index", 0) + len(case.get("field", ""))) % len(FENCES)]
    return o + "\n" + dumped + c + "\n"


def _f(x):
    return x


# ------------------------------------------------------------------------------------------- value pools and the predicate

BOOLS = ["commonmark_only", "all_links_external", "links_external_new_tab", "title_to_header", "footnote_sort", "footnote_transition", "linkify_fuzzy_links", "dmath_allow_labels", "dmath_allow_space", "dmath_allow_digits",
         "dmath_double_inline", "update_mathjax", "enable_checkboxes", "highlight_code_blocks"]  # gfm_only needs linkify at parse time; its validation is the same instance_of(bool)
LISTSTR = ["disable_syntax", "number_code_blocks", "suppress_warnings"]
KNOWN_EXT = ["amsmath", "attrs_image", "attrs_inline", "attrs_block", "colon_fence", "deflist", "dollarmath", "fieldlist", "html_admonition", "html_image", "linkify", "replacements", "smartquotes", "strikethrough", "substitution", "tasklist"]

V = "valid"
I = "invalid"
B = "borderline"  # not judged


def pool(field):
    """[(value, class)] - class in valid / invalid / borderline, decided from the documented type only."""
    if field in BOOLS or field == "gfm_only":
        return [(True, V), (False, V), (1, I), (0, I), ("true", I), (None, I), ([], I), ([True], I), (1.0, I)]
    if field == "words_per_minute":
        return [(200, V), (1, V), (100, V), ("200", I), (2.5, I), (None, I), ([1], I), (True, B), (0, B), (-5, B)]
    if field == "heading_anchors":
        return [(k, V) for k in range(8)] + [(8, I), (-1, I), ("2", I), ([2], I), (None, I), (2.5, I), (True, B), (2.0, B)]
    if field in LISTSTR:
        return [([], V), (["a"], V), (("a", "b"), V), (["emphasis", "table"], V), ("abc", I), ([1], I), (["a", None], I), (None, I), ({"a"}, I), ({"a": 1}, I), (5, I)]
    if field == "ref_domains":
        return [(None, V), ([], V), (["py"], V), (("py", "std"), V), ("py", I), ([1], I), ({"py"}, I), (5, I)]
    if field == "enable_extensions":
        return [([], V), (["deflist"], V), (("deflist", "tasklist"), V), ({"dollarmath"}, V), (frozenset(["amsmath"]), V), ([e for e in KNOWN_EXT if e != "linkify"], V), (["nosuch"], I), (["deflist", "nosuch"], I), (5, I), (None, I), ([1], I),
                ("", B), ("deflist", B), ({"deflist": 1}, B)]
    if field == "fence_as_directive":
        return [([], V), (["a"], V), (("a", "b"), V), ({"a"}, V), ("abc", I), ([1], I), (None, I), (5, I), ({"a": 1}, I)]
    if field == "url_schemes":
        return [(["http"], V), (("http", "x"), V), ({"http": None}, V), ({"x": "https://e/{{path}}"}, V), ({"x": {"url": "u", "title": "t", "classes": ["c"]}}, V), ({}, V), ([], V), ({"x": {}}, V),
                (["http", 1], I), ("http", I), (None, I), (5, I), ({1: None}, I), ({"x": 5}, I), ({"x": {"url": 1}}, I), ({"x": {"title": 2}}, I), ({"x": {1: "a"}}, I), ({"x": {"classes": "c"}}, I), ({"x": {"classes": [1]}}, I),
                ({"x": ["u"]}, I), ({"x": {"url": None}}, I), ({"x": {"url": "u", "title": None}}, I), ({"x": {"url": "u", "classes": None}}, I), ({"x": {"url": "u", "classes": ["c", None]}}, I), ({"x": {"url": b"u"}}, I), ({"x": 0}, I),
                ({"x": False}, I), ({"x": ""}, V)]
    if field == "html_meta":
        return [({}, V), ({"a": "b"}, V), ({"description lang=en": "d"}, V), ({"a": 1}, I), ({1: "a"}, I), ([], I), ("x", I), (None, I), ({"a": None}, I)]
    if field == "substitutions":
        import platform

        # (the last value is a namedtuple subclass with its own __new__: valid, picklable, but not re-buildable by calling its type)
        return [({}, V), ({"a": 1}, V), ({"a": [1], "b": "s", "c": None}, V), ({"host": platform.uname()}, V), ({1: "a"}, I), ([], I), ("x", I), (None, I)]
    if field == "sub_delimiters":
        return [(("{", "}"), V), (["[", "]"], V), (("{{", "}}"), I), (("{",), I), ("ab", I), (["a", 1], I), (None, I), (("a", "b", "c"), I), ({"a", "b"}, I)]
    if field == "inventories":
        return [({}, V), ({"k": ["u", None]}, V), ({"k": ("u", "p")}, V), ({"k": ["u"]}, I), ({"k": "u"}, I), ({1: ["u", None]}, I), ({"k": [1, None]}, I), ({"k": ["u", 2]}, I), ([], I), (None, I)]
    if field == "heading_slug_func":
        from mv import slugfuncs

        return [(None, V), (slugfuncs.shout, V), ("mv.slugfuncs.shout", V), (len, V), (5, I), ([], I), ("nosuch_module_xyz.f", I), ("mv.slugfuncs.nosuch_attr", I), ("nodots", I), ("", I)]
    if field == "mathjax_classes":
        return [("a|b", V), ("", V), (5, I), (None, I), (["a"], I)]
    return None


def canon_value(field, v):
    """The canonical form documented for an accepted value (used for normalisation / entry-point comparison)."""
    if field in ("enable_extensions", "fence_as_directive"):
        return set(v)
    if field == "url_schemes":
        d = {k: None for k in v} if isinstance(v, (list, tuple)) else dict(v)
        return {k: ({"url": x} if isinstance(x, str) else x) for k, x in d.items()}
    if field == "heading_slug_func" and isinstance(v, str):
        from mv import slugfuncs

        return getattr(slugfuncs, v.rsplit(".", 1)[1])
    return v


def same(a, b):
    if isinstance(a, (list, tuple)) and isinstance(b, (list, tuple)):
        return len(a) == len(b) and all(same(x, y) for x, y in zip(a, b))
    if isinstance(a, dict) and isinstance(b, dict) and type(a) is type(b):
        return a.keys() == b.keys() and all(same(a[k], b[k]) for k in a)
    return a == b and (type(a) is type(b) or not isinstance(a, (set, frozenset, dict, str)))


def is_jsonish(v):
    if v is None or isinstance(v, (bool, int, float, str)):
        return True
    if isinstance(v, list):
        return all(is_jsonish(x) for x in v)
    if isinstance(v, dict):
        return all(isinstance(k, str) and is_jsonish(x) for k, x in v.items())
    return False


def docutils_string(field, v):
    """Spelling of a valid value as a docutils option string, or None when the setting has no such spelling."""
    if isinstance(v, bool):
        return "true" if v else "false"
    if isinstance(v, int):
        return str(v)
    if field in LISTSTR + ["enable_extensions", "fence_as_directive"]:
        vs = list(v)
        if not vs or any(("," in x or not x or x != x.strip()) for x in vs):
            return None
        return ",".join(vs)
    if field == "url_schemes":
        if isinstance(v, (list, tuple)):
            return ",".join(v) if v else None
        return yaml.safe_dump(v)
    if field in ("html_meta", "substitutions", "inventories"):
        return yaml.safe_dump({k: list(x) if isinstance(x, tuple) else x for k, x in v.items()}) if v else None
    if field in ("heading_slug_func", "mathjax_classes") and isinstance(v, str):
        return v or None
    return None


def fields():
    from myst_parser.config.main import MdParserConfig

    return {f.name: f for f in MdParserConfig.get_fields()}


# ------------------------------------------------------------------------------------------- (a) (b) (c) (f)


def eval_value(ctx, case):
    from docutils import frontend

    from myst_parser.config.main import MdParserConfig, merge_file_level
    from myst_parser.parsers.docutils_ import Parser, create_myst_config
    from myst_parser.sphinx_ext.main import create_myst_config as sphinx_create

    name = case["field"]
    val, cls = pool(name)[case["index"]]
    fld = fields()[name]
    detail = {"field": name, "value": repr(val), "class": cls}
    # --- constructor
    try:
        cfg = MdParserConfig(**{name: copy.deepcopy(val) if not callable(val) else val})
        outcome, got = "accepted", getattr(cfg, name)
    except (TypeError, ValueError) as e:
        outcome, got = "rejected", e
    except Exception as e:  # noqa: BLE001
        ctx.violation(f"reject:wrong-exception:{type(e).__name__}:{name}", f"MdParserConfig({name}={val!r}) raised {type(e).__name__} instead of TypeError/ValueError: {e}", case, detail)
        return
    ctx.count("ctor_outcomes")
    if cls == V and outcome != "accepted":
        ctx.violation(f"accept:valid-value-rejected:{name}", f"{name}={val!r} satisfies the documented type but was rejected: {got}", case, detail)
        return
    if cls == I and outcome != "rejected":
        ctx.violation(f"accept:invalid-value-accepted:{name}", f"{name}={val!r} does not satisfy the documented type but was accepted (stored as {got!r})", case, detail)
        return
    if cls == B:
        ctx.count("borderline_not_judged")
    # --- merge_file_level on a fresh default config: never raises, never modifies its input
    glob = MdParserConfig()
    before = copy.deepcopy(glob.as_dict())
    warns = []
    try:
        merged = merge_file_level(glob, {"myst": {name: copy.deepcopy(val) if not callable(val) else val}}, lambda t, m: warns.append((t, m)))
    except Exception as e:  # noqa: BLE001
        ctx.violation(f"merge:raises:{type(e).__name__}", f"merge_file_level raised {type(e).__name__} for {name}={val!r}: {e}", case, detail)
        return
    if glob.as_dict() != before:
        ctx.violation("snapshot:merge-modified-global", f"merge_file_level modified the global configuration ({name})", case, {**detail, "before": repr(before[name]), "after": repr(glob.as_dict()[name])})
    ctx.count("merge_calls")
    if outcome == "rejected":
        if len(warns) != 1:
            ctx.violation("front-matter:invalid-warning-count", f"{len(warns)} topmatter warnings for the invalid value {name}={val!r}", case, {**detail, "warnings": [w[1] for w in warns]})
        if not same(getattr(merged, name), getattr(MdParserConfig(), name)):
            ctx.violation("front-matter:invalid-not-ignored", f"the invalid value {name}={val!r} was not ignored: the document's config has {getattr(merged, name)!r}", case, detail)
        return
    if cls == B:
        return
    # --- accepted: normal form and entry points
    exp = canon_value(name, val)
    if fld.metadata.get("merge_topmatter"):
        exp_m = {**getattr(MdParserConfig(), name), **val}
    else:
        exp_m = exp
    if not same(got, exp):
        ctx.violation(f"normalise:constructor:{name}", f"{name}={val!r} is stored as {got!r}, canonical form is {exp!r}", case, detail)
    c2 = MdParserConfig().copy(**{name: val})
    if not same(getattr(c2, name), exp):
        ctx.violation(f"entry:copy:{name}", f"copy({name}={val!r}) stores {getattr(c2, name)!r}, constructor form {exp!r}", case, detail)
    # setting ONE option must leave every other option as it was - from non-default starting points too (constructor, copy, file-level merge)
    for base_kw in NONDEFAULT_BASES:
        if name in base_kw:
            continue
        try:
            b0 = MdParserConfig(**base_kw)
            variants = {"constructor": MdParserConfig(**base_kw, **{name: val}), "copy": b0.copy(**{name: val})}
            if not fld.metadata.get("global_only") and is_jsonish(val):
                variants["merge_file_level"] = merge_file_level(b0, {"myst": {name: val}}, lambda t, m: None)
        except Exception:  # noqa: BLE001
            continue
        lost = {k: getattr(b0, k) for k, v in base_kw.items() if not same(getattr(b0, k), canon_value(k, v))}
        if lost:
            ctx.violation(f"coupling:constructor-drops-{sorted(lost)[0]}", f"MdParserConfig(**{base_kw}) stores {lost}: a value that is valid on its own was changed because of another option", case, detail)
            break
        ref = b0.as_dict()
        for how, cfgx in variants.items():
            other = {k: v for k, v in cfgx.as_dict().items() if k != name and not same(v, ref[k])}
            ctx.count("other_fields_checked")
            if other:
                ctx.violation(f"coupling:{how}:{name}-changes-{sorted(other)[0]}", f"setting {name}={val!r} through {how} on a configuration with {base_kw} also changed {other} (was {dict((k, ref[k]) for k in other)})", case, detail)
                break
    if warns:
        ctx.violation("front-matter:valid-value-warned", f"valid {name}={val!r} produced topmatter warnings {warns}", case, detail)
    if not same(getattr(merged, name), exp_m):
        ctx.violation("entry:merge_file_level:not-normalised", f"merge_file_level stores {name}={getattr(merged, name)!r}, the constructor stores {exp_m!r} for the same value", case, detail)
    ctx.count("entry_points_compared")
    # --- real front matter -> config handed to create_md_parser
    if is_jsonish(val) and not fld.metadata.get("global_only") and name != "gfm_only":
        text = fm_wrap(case, yaml.safe_dump({"myst": {name: val}})) + "\nbody\n"
        CAPTURED.clear()
        try:
            doc, w = drive.parse_pre(text)
        except Exception as e:  # noqa: BLE001
            sig = core.exc_signature(e)
            ctx.violation(f"front-matter:parse-raises:{sig['type']}", f"parsing a document with front matter {name}={val!r} raised {sig['type']}: {sig['msg']}", case, {**detail, **sig})
            return
        if CAPTURED:
            used = getattr(CAPTURED[-1], name)
            if not same(used, exp_m):
                ctx.violation("entry:front-matter:not-normalised", f"the parser was created with {name}={used!r}; the same value given globally is {exp_m!r}", case, detail)
            ctx.count("front_matter_configs_captured")
        if "[myst.topmatter]" in w:
            ctx.violation("front-matter:valid-value-warned", f"valid {name}={val!r} produced a topmatter warning: {w.strip()[:200]}", case, detail)
    # --- docutils option string
    if "docutils" not in fld.metadata.get("omit", []):
        s0 = docutils_string(name, val)
        spellings = [s0]
        if name in LISTSTR + ["enable_extensions", "fence_as_directive"] and isinstance(val, (list, tuple, set, frozenset)) and (s0 is not None or not val):
            # comma lists: blanks around items, a trailing / leading / doubled comma and the empty list are the same value
            vs = list(val)
            j = ",".join(vs)
            spellings = [j, ", ".join(vs), " , ".join(vs), j + ",", "," + j, ",,".join(vs), " " + j + " "] if vs else ["", ",", " "]
        for s in spellings:
          if s is not None:
            flag = "--myst-" + name.replace("_", "-")
            try:
                settings = frontend.OptionParser(components=(Parser,)).parse_args([f"{flag}={s}"])
                dcfg = create_myst_config(settings)
            except (Exception, SystemExit) as e:  # noqa: BLE001
                ctx.violation(f"entry:docutils-string:rejected:{name}", f"{flag}={s!r} was rejected: {type(e).__name__} {e}", case, detail)
            else:
                exp_d = exp
                if isinstance(val, (list, tuple)) and name in LISTSTR:
                    exp_d = list(val)
                if not same(getattr(dcfg, name), exp_d) and not (name in LISTSTR and list(getattr(dcfg, name)) == list(exp_d)):
                    ctx.violation(f"entry:docutils-string:differs:{name}", f"{flag}={s!r} gives {getattr(dcfg, name)!r}, the constructor gives {exp!r}", case, detail)
                fr = conf_file_route(name, s)
                if fr is not None:
                    ctx.count("docutils_conf_file_strings_checked")
                    if not fr[0]:
                        ctx.violation(f"entry:docutils-conf-file:acceptance:{name}", f"myst_{name}: {s} in a docutils.conf is rejected, {flag}={s!r} on the command line is accepted", case, detail)
                    elif not same(getattr(fr[1], name), getattr(dcfg, name)):
                        ctx.violation(f"entry:docutils-conf-file:differs:{name}", f"myst_{name}: {s} in a docutils.conf gives {getattr(fr[1], name)!r}, the command line gives {getattr(dcfg, name)!r}", case, detail)
            ctx.count("docutils_strings_compared")
    # --- Sphinx conf value
    if "sphinx" not in fld.metadata.get("omit", []):
        app = types.SimpleNamespace(config={"myst_" + f.name: getattr(MdParserConfig(), f.name) for f in MdParserConfig.get_fields()}, env=types.SimpleNamespace())
        app.config["myst_" + name] = val
        try:
            sphinx_create(app)
        except Exception as e:  # noqa: BLE001
            ctx.violation(f"entry:sphinx-conf:raises:{type(e).__name__}", f"create_myst_config(app) raised for myst_{name}={val!r}: {e}", case, detail)
        else:
            if not same(getattr(app.env.myst_config, name), exp):
                ctx.violation(f"entry:sphinx-conf:differs:{name}", f"conf.py myst_{name}={val!r} gives {getattr(app.env.myst_config, name)!r}, the constructor gives {exp!r}", case, detail)
            ctx.count("sphinx_conf_compared")


def eval_invalid_sphinx(ctx, case):
    """An invalid conf.py value must not raise out of create_myst_config (it is reported and defaults are used)."""
    from myst_parser.config.main import MdParserConfig
    from myst_parser.sphinx_ext.main import create_myst_config as sphinx_create

    name = case["field"]
    val, cls = pool(name)[case["index"]]
    if cls != I or "sphinx" in fields()[name].metadata.get("omit", []):
        return
    app = types.SimpleNamespace(config={"myst_" + f.name: getattr(MdParserConfig(), f.name) for f in MdParserConfig.get_fields()}, env=types.SimpleNamespace())
    app.config["myst_" + name] = val
    try:
        sphinx_create(app)
        ctx.count("sphinx_invalid_conf_reported")
    except Exception as e:  # noqa: BLE001
        ctx.violation(f"entry:sphinx-conf:invalid-raises:{type(e).__name__}", f"create_myst_config(app) raised {type(e).__name__} for the invalid myst_{name}={val!r}: {e}", case, {"field": name, "value": repr(val)})


# ------------------------------------------------------------------------------------------- (d) effect equivalence

EFFECTS = [
    ("enable_extensions", ["deflist", "dollarmath", "tasklist", "colon_fence", "fieldlist", "attrs_inline", "attrs_block", "strikethrough", "substitution", "amsmath", "smartquotes", "replacements", "html_image"], {}),
    ("enable_extensions", ["deflist"], {"enable_extensions": ["tasklist", "dollarmath"]}),
    ("heading_anchors", 3, {}),
    ("footnote_sort", False, {}),
    ("footnote_transition", False, {}),
    ("url_schemes", ["http"], {}),
    ("url_schemes", {"https": None, "gh": "https://github.com/{{path}}#{{fragment}}", "x": {"url": "https://e/{{path}}", "title": "T {{path}}", "classes": ["c1"]}}, {}),
    ("all_links_external", True, {}),
    ("links_external_new_tab", True, {}),
    ("number_code_blocks", ["python"], {}),
    ("title_to_header", True, {}),
    ("substitutions", {"subkey": "FRONT *text*"}, {"substitutions": {"subkey": "GLOBAL", "subnum": 7, "subblock": "- a"}, "enable_extensions": ["substitution"]}),
    ("html_meta", {"keywords": "k1, k2"}, {"html_meta": {"description": "d", "keywords": "global"}}),
    ("disable_syntax", ["emphasis", "table"], {}),
    ("fence_as_directive", ["note", "python"], {}),
    ("dmath_double_inline", True, {"enable_extensions": ["dollarmath"]}),
    ("dmath_allow_labels", False, {"enable_extensions": ["dollarmath"]}),
    ("dmath_allow_space", False, {"enable_extensions": ["dollarmath"]}),
    ("dmath_allow_digits", False, {"enable_extensions": ["dollarmath"]}),
    ("enable_checkboxes", True, {"enable_extensions": ["tasklist"]}),
    ("highlight_code_blocks", False, {}),
    # commonmark_only is left out: without the front-matter plugin the front matter itself is Markdown text, which necessarily differs;
    # sub_delimiters / ref_domains / update_mathjax / mathjax_classes have no docutils setting (omit=docutils) and are compared in the Sphinx half of C15
    ("words_per_minute", 10, {}),
]
EXTRA_DOC = """
# Top title

## Sub `code` heading

[link](https://e.org/p#f) [gh](gh:org/repo#readme) [x](x:some/path) <http://auto.link> [slug](#sub-code-heading)

term
: definition $a=1$ and $$b$$ and 1$ 2$ x

- [ ] task
- [x] done

~~strike~~ "quotes" (c) -- {{ subkey }} [[ subkey ]] [span]{.cls}

$$
c = d
$$ (lbl)

```python
x = 1
```

```note
fence as directive?
```

| a | b |
|---|---|
| *e* | 2 |

text[^f1] more[^f2]

[^f2]: second
[^f1]: first
"""


def eval_effect(ctx, case):
    name, val, base = EFFECTS[case["effect"]]
    g = G.Gen(__import__("random").Random(case["seed"]), max_depth=3)
    body, _ = g.document(1, 4)
    body = body + EXTRA_DOC
    fm_extra = {"title": "Front Title"} if name == "title_to_header" else {}
    glob_kw = dict(base)
    if fields()[name].metadata.get("merge_topmatter"):
        glob_val = {**base.get(name, {}), **val}
    else:
        glob_val = val
    glob_kw[name] = glob_val
    t_global = fm_wrap(case, yaml.safe_dump({"other": "x", **fm_extra})) + "" + body
    t_front = fm_wrap(case, yaml.safe_dump({"other": "x", **fm_extra, "myst": {name: val}})) + "" + body
    try:
        d1, w1 = drive.parse(t_global, doctitle_xform=False, **G.cfg_to_overrides(glob_kw))
        d2, w2 = drive.parse(t_front, doctitle_xform=False, **G.cfg_to_overrides(base))
    except Exception as e:  # noqa: BLE001
        ctx.count("no_document:" + type(e).__name__)
        return
    drive.mask_lines(d1)
    drive.mask_lines(d2)
    a, b = d1.pformat(), d2.pformat()
    strip = lambda w: sorted(re.sub(r"^[^ ]*:\d*:? ", "", l) for l in w.splitlines() if l.strip())  # noqa: E731
    ctx.count("effect_pairs_compared")
    ctx.count("effect:" + name)
    if a != b:
        import difflib

        diff = "\n".join(list(difflib.unified_diff(a.splitlines(), b.splitlines(), "global", "front-matter", lineterm="", n=1))[:40])
        ctx.violation(f"effect:doctree-differs:{name}", f"{name}={val!r} set in front matter renders differently from the same value set globally", case, {"diff": diff, "front": t_front[:300]})
    elif strip(w1) != strip(w2):
        ctx.violation(f"effect:warnings-differ:{name}", f"{name}: warnings differ between global and front-matter setting", case, {"global": strip(w1)[:5], "front": strip(w2)[:5]})


SPHINX_EFFECTS = [
    ("sub_delimiters", ["[", "]"], {"enable_extensions": ["substitution"], "substitutions": {"subkey": "v"}}),
    ("enable_extensions", ["deflist", "dollarmath", "tasklist", "colon_fence", "strikethrough"], {}),
    ("heading_anchors", 3, {}),
    ("url_schemes", {"https": None, "gh": "https://github.com/{{path}}#{{fragment}}"}, {}),
    ("substitutions", {"subkey": "FRONT"}, {"substitutions": {"subkey": "GLOBAL", "subnum": 7}, "enable_extensions": ["substitution"]}),
    ("footnote_sort", False, {}),
    ("title_to_header", True, {}),
    ("fence_as_directive", ["note"], {}),
    ("dmath_double_inline", True, {"enable_extensions": ["dollarmath"]}),
    ("all_links_external", True, {}),
]


def eval_effect_sphinx(ctx, case):
    """(d) through the Sphinx front end: conf.py value vs the same value in the document's front matter, and the
    environment's global config is deep-equal before and after the build (f)."""
    name, val, base = SPHINX_EFFECTS[case["effect"]]
    # figure-md switches an extension on for its own body: the per-document configuration it works on must not be the project's
    body = EXTRA_DOC + "\n```{figure-md} fig-c13\n<img src=\"f.png\" alt=\"x\">\n\ncaption text\n```\n\n<img src=\"after.png\" alt=\"raw again\">\n"
    fm_extra = {"title": "Front Title"} if name == "title_to_header" else {}
    glob_kw = dict(base)
    glob_kw[name] = {**base.get(name, {}), **val} if fields()[name].metadata.get("merge_topmatter") else val
    t_global = fm_wrap(case, yaml.safe_dump({"other": "x", **fm_extra})) + "" + body
    t_front = fm_wrap(case, yaml.safe_dump({"other": "x", **fm_extra, "myst": {name: val}})) + "" + body
    out, out_later = [], []
    for text, kw in ((t_global, glob_kw), (t_front, base)):
        b = drive.SphinxBuild({"index.md": text, "zlater.md": "---\norphan: true\n---\n# Later\n\n<img src=\"later.png\" alt=\"read after index\">\n"}, conf={"myst_" + k: v for k, v in kw.items()}, builder="dummy")
        try:
            try:
                b.build()
            except Exception as e:  # noqa: BLE001
                ctx.count("no_document:sphinx:" + type(e).__name__)
                return
            before = repr(sorted((k, repr(v)) for k, v in b.app.env.myst_config.as_dict().items()))
            doc = b.doctree("index").deepcopy()
            drive.mask_lines(doc)
            from myst_parser.config.main import MdParserConfig

            expect = MdParserConfig(**{k: v for k, v in kw.items()})
            if repr(sorted((k, repr(v)) for k, v in expect.as_dict().items() if k in ("enable_extensions", name))) != repr(sorted((k, repr(v)) for k, v in b.app.env.myst_config.as_dict().items() if k in ("enable_extensions", name))):
                ctx.violation("snapshot:sphinx-global-config-changed-by-build", f"env.myst_config[{name}] after the build differs from the conf.py value", case, {"expected": repr(getattr(expect, name)), "after": repr(getattr(b.app.env.myst_config, name))})
            later = b.doctree("zlater").deepcopy()
            drive.mask_lines(later)
            out_later.append(later.pformat().replace(b.src, "SRC"))
            out.append((doc.pformat().replace(b.src, "SRC"), sorted(re.sub(r"^[^ ]* WARNING: ", "", re.sub(r"\x1b\[[0-9;]*m", "", l)) for l in b.norm_warnings().splitlines() if l.strip())))
        finally:
            b.close()
    # a page WITHOUT any front matter is parsed with the project's configuration object itself: the build must leave that object as conf.py made it
    if case["effect"] % 2 == 0:
        from myst_parser.config.main import MdParserConfig

        kw3 = {**base, "enable_extensions": sorted(set(base.get("enable_extensions", [])) | {"html_image", "html_admonition", "deflist"})}
        b = drive.SphinxBuild({"index.md": "# Index\n" + body, "zlater.md": "---\norphan: true\n---\n# Later\n\n<img src=\"later.png\" alt=\"read after index\">\n"}, conf={"myst_" + k: v for k, v in kw3.items()}, builder="dummy")
        try:
            try:
                b.build()
                want = repr(sorted((k, repr(v)) for k, v in MdParserConfig(**kw3).as_dict().items()))
                have = repr(sorted((k, repr(v)) for k, v in b.app.env.myst_config.as_dict().items()))
                ctx.count("sphinx_shared_config_snapshots")
                if want != have:
                    ctx.violation("snapshot:sphinx-global-config-changed-by-build", "env.myst_config after building a page without front matter (figure-md, html_image enabled for the project) differs from the conf.py values", case,
                                  {"expected": want[:800], "after": have[:800]})
                from docutils import nodes as _n

                if not list(b.doctree("zlater").findall(_n.image)):
                    ctx.violation("snapshot:sphinx-later-document-sees-file-level-state", "html_image is enabled for the project, but the <img> of a page read after a figure-md page was not converted", case, None)
            except Exception as e:  # noqa: BLE001
                ctx.count("no_document:sphinx:" + type(e).__name__)
        finally:
            b.close()
    ctx.count("sphinx_effect_pairs_compared")
    if name not in ("enable_extensions",) and len(out_later) == 2 and ("<raw" in out_later[0]) != ("<raw" in out_later[1]) and "html_image" not in str(base.get("enable_extensions", "")):
        ctx.violation("snapshot:sphinx-later-document-sees-file-level-state", f"[sphinx] a document read after index.md is rendered differently depending on whether {name} was set in index.md's front matter or in conf.py", case,
                      {"later_conf": out_later[0][:600], "later_front": out_later[1][:600]})
    if out[0][0] != out[1][0]:
        import difflib

        diff = "\n".join(list(difflib.unified_diff(out[0][0].splitlines(), out[1][0].splitlines(), "conf.py", "front-matter", lineterm="", n=1))[:40])
        ctx.violation(f"effect:sphinx:doctree-differs:{name}", f"[sphinx] {name}={val!r} in front matter renders differently from the same value in conf.py", case, {"diff": diff})
    elif out[0][1] != out[1][1]:
        ctx.violation(f"effect:sphinx:warnings-differ:{name}", f"[sphinx] {name}: warnings differ between conf.py and front-matter setting", case, {"conf": out[0][1][:5], "front": out[1][1][:5]})


def eval_invalid_doc(ctx, case):
    """(e) through the full pipeline: an invalid front-matter value is ignored with exactly one [myst.topmatter] warning."""
    name = case["field"]
    val, cls = pool(name)[case["index"]]
    if cls != I or not is_jsonish(val) or name == "gfm_only":
        return
    g = G.Gen(__import__("random").Random(case["seed"]), max_depth=2)
    body, _ = g.document(1, 3)
    body += "\nclosing paragraph\n"  # other content, so that the extra warning node does not decide about the footnotes transition
    t_bad = fm_wrap(case, yaml.safe_dump({"myst": {name: val}})) + "" + body
    t_ref = fm_wrap(case, yaml.safe_dump({"myst": {}})) + "" + body
    try:
        d1, w1 = drive.parse(t_bad, doctitle_xform=False)
        d2, w2 = drive.parse(t_ref, doctitle_xform=False)
    except Exception as e:  # noqa: BLE001
        sig = core.exc_signature(e)
        ctx.violation(f"front-matter:invalid-raises:{sig['type']}:{sig['myst']}", f"a document with the invalid front-matter value {name}={val!r} raised {sig['type']}: {sig['msg']}", case, {"text": t_bad[:300], **sig})
        return
    from docutils import nodes

    n = len(re.findall(r"\[myst\.topmatter\]", w1))
    ctx.count("invalid_front_matter_docs")
    if n != 1:
        ctx.violation("front-matter:invalid-warning-count", f"{n} [myst.topmatter] warnings for the invalid front-matter value {name}={val!r}", case, {"warnings": w1[-500:]})
    for d in (d1, d2):
        for sm in list(d.findall(nodes.system_message)):
            sm.parent.remove(sm)  # the extra warning node may legitimately change docutils' own messages (e.g. 'document begins with a transition')
        drive.mask_lines(d)
    if d1.pformat() != d2.pformat():
        ctx.violation("front-matter:invalid-not-ignored", f"the invalid front-matter value {name}={val!r} changed the rendering", case, {"text": t_bad[:300]})


DOCUTILS_DICT_STRINGS = ["false", "no", "off", "0", "0.0", "[]", "''", "~", "null", "", " ", "1", "true", "[a]", "abc", "{}", "{a: b}", "a: b", "{a: [u, ~]}", "a: [u, ~]", "{1: b}", "- a", "a: b\nc: d", "{a: {b: c}}", "a:", "{", "!!set {a}",
                         "!!python/object:os.system x", "{a: 1}", "a: ~"]
DOCUTILS_INT_STRINGS = ["x", "1.5", "", "-1", "0", "1", "7", "8", "200", " 3", "nan", "1e1", "true", "None", "0x2"]


def conf_file_route(name, s):
    """-> (accepted, config or None) for ``myst_<name>: <s>`` written into a docutils.conf ([myst parser] section, read through $DOCUTILSCONFIG);
    None when the string cannot be written on one configuration line."""
    import contextlib
    import tempfile

    from docutils import frontend

    from myst_parser.parsers.docutils_ import Parser, create_myst_config

    if not (s == s.strip() and s and "\n" not in s and s[0] not in "#;[" and "%" not in s):
        return None
    d = tempfile.mkdtemp(prefix="c13conf_")
    old_env = os.environ.get("DOCUTILSCONFIG")
    try:
        with open(os.path.join(d, "docutils.conf"), "w", encoding="utf8") as f:
            f.write(f"[myst parser]\nmyst_{name}: {s}\n")
        os.environ["DOCUTILSCONFIG"] = os.path.join(d, "docutils.conf")
        try:
            with contextlib.redirect_stderr(io.StringIO()):
                fsettings = frontend.OptionParser(components=(Parser,), read_config_files=True).get_default_values()
                return True, create_myst_config(fsettings)
        except (Exception, SystemExit):  # noqa: BLE001
            return False, None
    finally:
        if old_env is None:
            os.environ.pop("DOCUTILSCONFIG", None)
        else:
            os.environ["DOCUTILSCONFIG"] = old_env
        shutil.rmtree(d, ignore_errors=True)


def eval_docutils_string_acceptance(ctx, case):
    """Option STRINGS of the docutils entry point (command line / docutils.conf): a string is accepted exactly when it spells - by the documented
    deserialisation (a YAML dictionary, an integer) - a value the constructor accepts, and then it yields the constructor's configuration."""
    from docutils import frontend

    from myst_parser.config.main import MdParserConfig
    from myst_parser.parsers.docutils_ import Parser, create_myst_config

    name, s = case["field"], case["string"]
    flag = "--myst-" + name.replace("_", "-")
    if case["as"] == "yaml-dict":
        try:
            pyv = yaml.safe_load(s)
            if name == "url_schemes" and isinstance(pyv, str):
                pyv = {k: None for k in pyv.split(",")}  # documented: a comma-delimited list of schemes or a YAML dictionary
            spelled = isinstance(pyv, dict)
        except Exception:  # noqa: BLE001
            pyv, spelled = None, False
    else:
        spelled = re.fullmatch(r"\s*[-+]?\d+\s*", s) is not None
        pyv = int(s) if spelled else None
    exp_cfg = None
    if spelled:
        try:
            exp_cfg = MdParserConfig(**{name: pyv})
        except Exception:  # noqa: BLE001
            exp_cfg = None
    want = exp_cfg is not None
    import contextlib

    try:
        with contextlib.redirect_stderr(io.StringIO()):
            settings = frontend.OptionParser(components=(Parser,)).parse_args([f"{flag}={s}"])
            dcfg = create_myst_config(settings)
        got = True
    except (Exception, SystemExit):  # noqa: BLE001
        got, dcfg = False, None
    # the same string written into a docutils.conf: same acceptance, same configuration
    fr = conf_file_route(name, s)
    if fr is not None:
        fgot, fcfg = fr
        ctx.count("docutils_conf_file_strings_checked")
        if fgot != got:
            ctx.violation(f"entry:docutils-conf-file:acceptance:{name}", f"myst_{name}: {s} in a docutils.conf is {'accepted' if fgot else 'rejected'}, {flag}={s!r} on the command line is {'accepted' if got else 'rejected'}", case, {"flag": flag, "string": s})
        elif fgot and not same(getattr(fcfg, name), getattr(dcfg, name)):
            ctx.violation(f"entry:docutils-conf-file:differs:{name}", f"myst_{name}: {s} in a docutils.conf gives {getattr(fcfg, name)!r}, the command line gives {getattr(dcfg, name)!r}", case, {"flag": flag, "string": s})
    ctx.count("docutils_string_acceptance_checked")
    ctx.count("docutils_string_acceptance:" + ("accepted" if got else "rejected"))
    detail = {"flag": flag, "string": s, "deserialised": repr(pyv), "constructor_accepts": want}
    if got != want:
        ctx.violation(f"entry:docutils-string:acceptance:{name}", f"{flag}={s!r} is {'accepted' if got else 'rejected'} (it becomes {getattr(dcfg, name, None)!r}); the string spells {pyv!r}, which the constructor {'accepts' if want else 'rejects'}", case, detail)
    elif got and not same(getattr(dcfg, name), getattr(exp_cfg, name)):
        ctx.violation(f"entry:docutils-string:differs:{name}", f"{flag}={s!r} gives {getattr(dcfg, name)!r}, the constructor gives {getattr(exp_cfg, name)!r}", case, detail)


def eval_case(ctx, case):
    k = case["kind"]
    if k == "docutils_string":
        return eval_docutils_string_acceptance(ctx, case)
    if k == "value":
        eval_value(ctx, case)
        eval_invalid_sphinx(ctx, case)
    elif k == "effect":
        eval_effect(ctx, case)
    elif k == "invalid_doc":
        eval_invalid_doc(ctx, case)
    elif k == "effect_sphinx":
        eval_effect_sphinx(ctx, case)


# ------------------------------------------------------------------------------------------- workload


def run_shard(ctx):
    R = ctx.rng
    quick = ctx.tier == "quick"
    names = sorted(fields())
    missing = [n for n in names if pool(n) is None]
    if missing:
        ctx.note_inconclusive(f"no value pool for config fields {missing} (new field?)")
    idx = n = 0
    for name in names:
        p = pool(name)
        if p is None:
            continue
        for i in range(len(p)):
            idx += 1
            if idx % ctx.nshards != ctx.shard:
                continue
            eval_case(ctx, {"kind": "value", "field": name, "index": i})
            n += 1
            if p[i][1] == I:
                eval_case(ctx, {"kind": "invalid_doc", "field": name, "index": i, "seed": idx})
    ctx.case(n=n)
    ctx.enumerated(n)
    ctx.subrun("field_value_matrix", exhaustive=True, fields=len(names) if ctx.shard == 0 else 0, cases=n)
    k = 0
    for name in names:
        fld = fields()[name]
        if "docutils" in fld.metadata.get("omit", []):
            continue
        t = typing.get_origin(fld.type) is dict
        if not t and fld.type is not int:
            continue
        for sx in (DOCUTILS_DICT_STRINGS if t else DOCUTILS_INT_STRINGS):
            k += 1
            if k % ctx.nshards == ctx.shard:
                eval_case(ctx, {"kind": "docutils_string", "field": name, "string": sx, "as": "yaml-dict" if t else "int"})
                ctx.case(("docutils_string", name, sx), True)
    ctx.subrun("docutils_option_string_acceptance", exhaustive=True, dict_strings=len(DOCUTILS_DICT_STRINGS), int_strings=len(DOCUTILS_INT_STRINGS))
    ctx.sample({"kind": "value", "field": "url_schemes", "index": 3, "value": repr(pool("url_schemes")[3])})
    for i in range(len(SPHINX_EFFECTS)):
        if i % ctx.nshards == ctx.shard % len(SPHINX_EFFECTS) or not quick:
            case = {"kind": "effect_sphinx", "effect": i}
            eval_case(ctx, case)
            ctx.case(("effect_sphinx", i), True)
    ne = 250 if quick else 10000
    for i in range(ne):
        case = {"kind": "effect", "effect": (i * ctx.nshards + ctx.shard) % len(EFFECTS), "seed": R.getrandbits(40)}
        eval_case(ctx, case)
        ctx.case(("effect", case["effect"], case["seed"]), True)
        if i == 0:
            ctx.sample(case)
        if (i & 0xF) == 0 and ctx.out_of_time():
            break


def finalize(m, tier):
    c = m["counters"]
    for k, lo in (("ctor_outcomes", 250), ("merge_calls", 200), ("entry_points_compared", 80), ("front_matter_configs_captured", 40), ("docutils_strings_compared", 30), ("sphinx_conf_compared", 60), ("sphinx_invalid_conf_reported", 50),
                  ("effect_pairs_compared", 1500), ("invalid_front_matter_docs", 60), ("sphinx_effect_pairs_compared", 8)):
        if c.get(k, 0) < lo:
            m["inconclusive"].append(f"monitor observed only {c.get(k, 0)} '{k}' events (< {lo})")
    mon.require_reach(m, ANCHORS)
