"""C14 - warnings: closed typed catalogue; suppression has no side effects.

Event-log monitor: every create_warning decision is observed through the patched module-level _is_suppressed_warning
(tag, decision, call site), every Sphinx-side warning through a logging handler, every docutils-side line through the
warning stream.  (1) each observed tag must be in the catalogue, each line must carry its tag; (2) differential: the run
with suppress_warnings = S must equal the unsuppressed run minus exactly the warnings S matches - in the event log, the
stream and the doctree (pformat) - for S in {tag, bare type, 'type.*', unions}, in both front ends.
"""

from __future__ import annotations

import ast
import os
import re
import shutil
import tempfile
import zlib

from .. import core, drive, mon

PROP = "C14"
RULE = (
    "documents assembled from a trigger table (one or more constructs per catalogue member: deprecated, not_supported, "
    "topmatter, duplicate_def, header, directive_parse, directive_option, directive_comments, directive_unknown, role_unknown, "
    "xref_missing, inv_retrieval, iref_missing, iref_ambiguous, heading_slug, strikethrough, attribute, substitution, plus "
    "ref.footnote) in random combination and order, x suppress sets {one tag, bare type, 'type.*', unions of 2-4, all}; "
    "docutils front end and Sphinx (dummy builder); distinct by hash of (triggers, S, front end); non-trivial = >= 2 warnings "
    "triggered and S matches at least one but not all"
)
ASSUME = [
    "suppress matching is re-implemented independently: an entry matches tag 'type.subtype' iff it is 'type', 'type.subtype' or 'type.*'",
    "catalogue members no workload can trigger (render, directive_body, html, domains, xref_ambiguous in docutils) are reported as uncovered, not as held",
    "the static enumeration of call sites (ast) only supplies a coverage denominator; verdicts come from observed events",
]
SHARDS = {"quick": 16, "thorough": 16}
BUDGET_S = {"quick": 50, "thorough": 900}
ANCHORS = ["warnings_.create_warning", "warnings_._is_suppressed_warning", "DocutilsRenderer.create_warning", "ResolveAnchorIds.apply", "UnreferencedFootnotesDetector.apply"]

TMP = None
WL = None
EXT = ["strikethrough", "attrs_inline", "substitution", "colon_fence"]


def ser_v2(project, version, rows):
    body = "".join(f"{n} {dt} {prio} {loc} {disp}\n" for n, dt, prio, loc, disp in rows)
    head = f"# Sphinx inventory version 2\n# Project: {project}\n# Version: {version}\n# The remainder of this file is compressed using zlib.\n"
    return head.encode() + zlib.compress(body.encode())


def setup(ctx):
    global TMP, WL
    TMP = tempfile.mkdtemp(prefix="c14_")
    with open(os.path.join(TMP, "objects.inv"), "wb") as f:
        f.write(ser_v2("P", "1", [("mod.func", "py:function", 1, "api.html#$", "-"), ("mod.fun2", "py:function", 1, "api.html#$", "-"), ("lbl", "std:label", -1, "i.html#lbl", "Label")]))
    WL = mon.WarnLog().start()
    mon.start_reach(ctx)


def teardown(ctx):
    mon.finish_reach(ctx, ANCHORS)
    if WL:
        WL.stop()
    shutil.rmtree(TMP, ignore_errors=True)


def catalogue():
    from myst_parser.warnings_ import MystWarnings

    return {m.value for m in MystWarnings}


EXTRA_TAGS = {("ref", "footnote")}

# name -> (lines, expected docutils tag, in sphinx?, needs)
def triggers(n):
    return {
        "header": ([f"#### Deep heading {n}"], "myst.header"),
        "duplicate_def": ([f"[dd{n}]: http://a", "", f"[dd{n}]: http://b"], "myst.duplicate_def"),
        "directive_unknown": ([f"```{{nosuchdir{n}}}", "```"], "myst.directive_unknown"),
        "role_unknown": ([f"para {{nosuchrole{n}}}`x` end"], "myst.role_unknown"),
        "directive_option": (["```{note}", ":nosuchoption: 1", "", f"body {n}", "```"], "myst.directive_option"),
        "directive_option_invalid": (["```{image} i.png", ":width: notalength", "```"], "myst.directive_option"),
        "directive_comments": (["```{note}", ":class: x # a comment", "", f"body {n}", "```"], "myst.directive_comments"),
        "directive_comments_block_header": (["```{note}", "---", "class: |  # a comment after the block-scalar indicator", "  x", "---", "", f"body {n}", "```"], "myst.directive_comments"),
        "directive_comments_own_line": (["```{note}", "---", "# a comment line", "class: x", "---", "", f"body {n}", "```"], "myst.directive_comments"),
        "directive_parse": (["```{image} i.png", "", f"content not permitted {n}", "```"], "myst.directive_parse"),
        "xref_missing_text": ([f"see [text {n}](#nope-{n}) end"], "myst.xref_missing"),
        "xref_missing_empty": ([f"see [](#void-{n}) end"], "myst.xref_missing"),
        "not_supported": ([f"a <path:file{n}.txt> b"], "myst.not_supported"),
        "strikethrough": ([f"~~gone {n}~~"], "myst.strikethrough"),
        "attribute": ([f"![a](i.png){{w=notalength{n}}}"], "myst.attribute"),
        "substitution": ([f"{{{{ nosuchkey{n} }}}}"], "myst.substitution"),
        "substitution_inline": ([f"x {{{{ 1/0 }}}} y {n}"], "myst.substitution"),
        "footnote_dup": ([f"[^d{n}]: one", "", f"[^d{n}]: two", "", f"use[^d{n}]"], "ref.footnote"),
        "footnote_unref": ([f"[^u{n}]: never referenced"], "ref.footnote"),
        "iref_missing": ([f"[](inv:#nosuch{n}*)"], "myst.iref_missing"),
        "iref_ambiguous": (["[](inv:#mod.fu*)"], "myst.iref_ambiguous"),
        # the same triggers inside nested-parsed content (directive bodies, quotes, list items)
        "duplicate_def_nested": ([f"[dn{n}]: http://a", "", "```{note}", f"[dn{n}]: http://b", "", "body", "```"], "myst.duplicate_def"),
        "duplicate_def_both_nested": (["````{tip}", f"[db{n}]: http://a", "", "```{note}", f"[db{n}]: http://b", "```", "````"], "myst.duplicate_def"),
        "role_unknown_nested": (["> ```{note}", f"> para {{nosuchrole{n}}}`x` end", "> ```"], "myst.role_unknown"),
        "directive_unknown_nested": (["- ````{note}", f"  ```{{nosuchdir{n}}}", "  ```", "  ````"], "myst.directive_unknown"),
        "strikethrough_nested": (["```{note}", f"~~gone {n}~~", "```"], "myst.strikethrough"),
        "substitution_nested": (["```{note}", f"{{{{ nosuchkey{n} }}}}", "```"], "myst.substitution"),
        "xref_missing_nested": (["```{note}", f"see [text {n}](#nopen-{n}) end", "```"], "myst.xref_missing"),
        "attribute_nested": (["> " + f"![a](i.png){{w=notalength{n}}}"], "myst.attribute"),
        # the same constructs inside text from which titles, ids and link texts are derived (headings, captions, terms)
        "strikethrough_in_heading": ([f"## Release ~~draft {n}~~ notes"], "myst.strikethrough"),
        "role_unknown_in_heading": ([f"## Title {{nosuchrole{n}}}`x` tail {n}"], "myst.role_unknown"),
        "substitution_in_heading": ([f"## Sub {{{{ nosuchkey{n} }}}} tail {n}"], "myst.substitution"),
        "attribute_in_heading": ([f"## Img ![a](i.png){{w=notalength{n}}} tail {n}"], "myst.attribute"),
        "xref_missing_in_heading": ([f"## See [t {n}](#nopeh-{n}) end"], "myst.xref_missing"),
        "strikethrough_in_caption": (["```{figure} i.png", f":name: fg{n}", "", f"caption ~~gone {n}~~", "```", "", f"see [](#fg{n})"], "myst.strikethrough"),
        "role_unknown_in_term": ([f"term {{nosuchrole{n}}}`x` {n}", ": definition"], "myst.role_unknown"),
        "strikethrough_in_labelled_heading": ([f"(lh{n})=", f"## Labelled ~~old {n}~~ heading", "", f"see [](#lh{n})"], "myst.strikethrough"),
        "plain": ([f"just a paragraph {n}"], None),
        "plain_list": ([f"- item {n}", "- item b"], None),
    }


FRONT = {
    "topmatter_unknown": ("myst:\n  nosuchfield: 1", "myst.topmatter"),
    "topmatter_invalid": ("myst:\n  heading_anchors: notanint", "myst.topmatter"),
    "topmatter_notdict": ("myst: 5", "myst.topmatter"),
    "topmatter_legacy": ("substitutions:\n  k: v", "myst.topmatter"),
}
CONFIG_TRIGGERS = ["heading_slug", "deprecated", "inv_retrieval"]


def build(case):
    lines = []
    exp = []
    fm = case.get("front")
    if fm:
        lines += ["---"] + FRONT[fm][0].split("\n") + ["---", ""]
        exp.append(FRONT[fm][1])
    lines += ["# Top", ""]
    for i, name in enumerate(case["triggers"]):
        L, tag = triggers(100 + i)[name]
        lines += L + [""]
        if tag:
            exp.append(tag)
    lines += ["closing paragraph", ""]
    kw = {"myst_enable_extensions": list(EXT), "myst_inventories": {"inv": ["https://example.com/docs", os.path.join(TMP, "objects.inv")]}}
    cfgs = case.get("config", [])
    if "heading_slug" in cfgs:
        from mv import slugfuncs

        kw["myst_heading_slug_func"] = slugfuncs.boom
        kw["myst_heading_anchors"] = 1
        exp.append("myst.heading_slug")
    if "deprecated" in cfgs:
        kw["myst_enable_extensions"] = list(EXT) + ["attrs_image"]
        exp.append("myst.deprecated")
    if "inv_retrieval" in cfgs:
        kw["myst_inventories"]["bad"] = ["https://example.com/x", os.path.join(TMP, "does-not-exist.inv")]
        if any(t.startswith("iref") for t in case["triggers"]):
            exp.append("myst.inv_retrieval")
    return "\n".join(lines), kw, exp


def matches(S, tag):
    t, _, st = tag.partition(".")
    return any(e == t or e == tag or e == t + ".*" for e in S)


TAG_END = re.compile(r"\[(\w+)\.(\w+)\]\s*$")
ANSI = re.compile(r"\x1b\[[0-9;]*m")


def line_tag(line):
    m = TAG_END.search(ANSI.sub("", line).rstrip())
    return f"{m.group(1)}.{m.group(2)}" if m else None


def via_option_string(S):
    """The suppress list as docutils delivers it when it is written on the command line / in docutils.conf (through the option's validator)."""
    from docutils import frontend

    from myst_parser.parsers.docutils_ import Parser

    op = frontend.OptionParser(components=(Parser,), read_config_files=False)
    vals = op.parse_args(["--myst-suppress-warnings=" + ",".join(S), "in.md"])
    return vals.myst_suppress_warnings


DOCTITLE = [False]  # docutils' default is True; set per case
REPORT = [2]  # docutils' report_level (1 = also INFO messages), set per case


def run_docutils(text, kw, S, via="list"):
    WL.clear()
    sw = list(S)
    if via == "string" and S and all(x and "," not in x and x == x.strip() for x in S):
        sw = via_option_string(S)
    doc, w = drive.parse(text, source_path=os.path.join(TMP, "doc.md"), doctitle_xform=DOCTITLE[0], myst_suppress_warnings=sw, report_level=REPORT[0], **kw)
    events = list(WL.events)
    return doc, w, events


def strip_matched(doc, S):
    """Expected doctree under S: the unsuppressed doctree minus the system_message nodes S matches."""
    from docutils import nodes

    d = doc.deepcopy()
    for sm in list(d.findall(nodes.system_message)):
        tag = line_tag(sm.astext())
        if tag and matches(S, tag):
            sm.parent.remove(sm)
    return d


def stream_records(w):
    recs = drive.split_warnings(w)
    return [(r["msg"], r["line"]) for r in recs]


def eval_docutils(ctx, case):
    from docutils import nodes

    text, kw, exp_tags = build(case)
    S = case["S"]
    detail = {"text": text, "S": S}
    DOCTITLE[0] = bool(case.get("doctitle"))
    REPORT[0] = case.get("report_level", 2)
    # (the generated document has exactly one top-level section, which docutils promotes to the document title when doctitle_xform is on)
    try:
        d0, w0, ev0 = run_docutils(text, kw, [])
        dS, wS, evS = run_docutils(text, kw, S, case.get("via", "list"))
        if case.get("via") == "string":
            ctx.count("suppress_sets_given_as_option_string")
    except Exception as e:  # noqa: BLE001
        ctx.count("no_document:" + type(e).__name__)
        return False
    cat = catalogue()
    # ---- (1) catalogue
    for (t, st, sup, site) in ev0 + evS:
        ctx.count("events_observed")
        if t == "myst":
            if st not in cat:
                ctx.violation("catalogue:unknown-myst-subtype", f"warning emitted with tag myst.{st}, which is not in MystWarnings (call site {site})", case, detail)
        elif (t, st) not in EXTRA_TAGS:
            ctx.violation("catalogue:undocumented-tag", f"warning emitted with tag {t}.{st} (call site {site})", case, detail)
    for (t, st, sup, site) in ev0:
        ctx.count(f"tag:{t}.{st}")
        ctx.count(f"site:{site}")
    tags0 = sorted(f"{t}.{st}" for t, st, _, _ in ev0)
    if any(sup for _, _, sup, _ in ev0):
        ctx.violation("suppress:suppressed-with-empty-set", "a warning was suppressed although suppress_warnings is empty", case, detail)
    # every trigger produced its tag (the trigger table is itself checked)
    missing = [t for t in set(exp_tags) if tags0.count(t) < exp_tags.count(t)]
    if missing:
        ctx.violation("catalogue:expected-warning-not-emitted:" + missing[0], f"constructs that should warn with {missing} produced tags {tags0}", case, {**detail, "stream": w0[-1500:]})
    # every stream line of a MyST call site carries its tag: #unsuppressed events == #tagged lines
    lines0 = [l for l, _ in stream_records(w0)]
    tagged0 = [line_tag(l) for l in lines0 if line_tag(l)]
    if sorted(tagged0) != tags0:
        ctx.violation("catalogue:stream-lines-vs-events", f"stream carries tags {sorted(tagged0)}, events were {tags0}", case, {**detail, "stream": w0[-1500:]})
    # ---- (2) suppression differential
    exp_events = sorted(f"{t}.{st}" for t, st, _, _ in ev0)
    got_events = sorted(f"{t}.{st}" for t, st, _, _ in evS)
    if exp_events != got_events:
        ctx.violation("suppress:event-set-changed", f"with S={S} the warnings raised are {got_events}, without {exp_events}: suppression changed what is raised", case, detail)
    for (t, st, sup, site) in evS:
        tag = f"{t}.{st}"
        if bool(sup) != matches(S, tag):
            ctx.violation("suppress:wrong-decision:" + ("not-suppressed" if matches(S, tag) else "suppressed"), f"tag {tag} with S={S}: decision suppressed={sup}, documented matching says {matches(S, tag)}", case, detail)
    exp_lines = sorted(l for l in lines0 if not (line_tag(l) and matches(S, line_tag(l))))
    got_lines = sorted(l for l, _ in stream_records(wS))
    if exp_lines != got_lines:
        removed = [l for l in exp_lines if l not in got_lines]
        added = [l for l in got_lines if l not in exp_lines]
        ctx.violation("suppress:stream:" + ("other-warning-lost" if removed else "suppressed-warning-still-logged"), f"S={S}: stream lines lost {removed[:2]} / extra {added[:2]}", case, {**detail, "stream0": w0[-1200:], "streamS": wS[-1200:]})
    expd = strip_matched(d0, S).pformat()
    gotd = dS.pformat()
    if expd != gotd:
        import difflib

        diff = "\n".join(list(difflib.unified_diff(expd.splitlines(), gotd.splitlines(), "unsuppressed-minus-S", "suppressed", lineterm="", n=2))[:40])
        key = "suppress:doctree-side-effect"
        if "xref_missing_empty" in case["triggers"] and matches(S, "myst.xref_missing"):
            # known mechanism? the witness must stop failing when the empty-text missing link is given explicit text
            alt = dict(case, triggers=["xref_missing_text" if t == "xref_missing_empty" else t for t in case["triggers"]])
            t2, kw2, _ = build(alt)
            try:
                a0, _, _ = run_docutils(t2, kw2, [])
                aS, _, _ = run_docutils(t2, kw2, S)
                if strip_matched(a0, S).pformat() == aS.pformat():
                    key = "suppress:xref-missing-fallback-text"
            except Exception:  # noqa: BLE001
                pass
        elif any(line_tag(sm.astext()) and matches(S, line_tag(sm.astext())) for sm in dS.findall(nodes.system_message)):
            key = "suppress:doctree:suppressed-message-still-in-doctree"
        ctx.violation(key, f"S={S}: the doctree differs from the unsuppressed doctree minus the matched messages", case, {**detail, "diff": diff})
    ctx.count("docutils_pairs_compared")
    nm = sum(1 for t in tags0 if matches(S, t))
    return len(tags0) >= 2 and 0 < nm < len(tags0)


# ------------------------------------------------------------------------------------------- Sphinx

SPHINX_TRIGGERS = ["header", "duplicate_def", "directive_unknown", "role_unknown", "directive_option", "directive_comments", "directive_parse", "xref_missing_text", "strikethrough", "attribute", "substitution", "footnote_dup", "footnote_unref", "plain"]


def sphinx_run(text, S, exts, extra_conf=None):
    b = drive.SphinxBuild({"index.md": text}, conf={"myst_enable_extensions": exts, "suppress_warnings": list(S), "keep_warnings": True, **(extra_conf or {})}, builder="dummy")
    try:
        b.build()
        doc = b.doctree("index")
        res = b.resolved("index")
        doc, res = doc.deepcopy(), res.deepcopy()
        for d in (doc, res):
            for n in d.findall(nodes_mod().Element):
                if n.get("source"):
                    n["source"] = str(n["source"]).replace(b.src, "SRC")
        return doc, res, b.norm_warnings(), [(r["type"], r["subtype"], r["msg"]) for r in b.records]
    finally:
        b.close()


def nodes_mod():
    from docutils import nodes

    return nodes


def eval_sphinx(ctx, case):
    from docutils import nodes

    lines = ["# Top", ""]
    exp = []
    for i, name in enumerate(case["triggers"]):
        L, tag = triggers(100 + i)[name]
        lines += L + [""]
        if tag:
            exp.append(tag)
    lines += ["closing paragraph", ""]
    text = "\n".join(lines)
    S = case["S"]
    detail = {"text": text, "S": S}
    try:
        # configuration-triggered warnings as well: a user mathjax class that MyST overrides (dollarmath on)
        xc = {"mathjax3_config": {"options": {"processHtmlClass": "user-class"}}} if case.get("mathjax") else None
        exts = EXT + (["dollarmath"] if case.get("mathjax") else [])
        if case.get("deprecated"):
            # the deprecated extension next to its successor (both front ends keep separate copies of this check)
            exts = exts + ["attrs_image"]
            exp.append("myst.deprecated")
        WL.clear()
        d0, r0, w0, rec0 = sphinx_run(text, [], exts, xc)
        ev0 = list(WL.events)
        WL.clear()
        dS, rS, wS, recS = sphinx_run(text, S, exts, xc)
        evS = list(WL.events)
    except Exception as e:  # noqa: BLE001
        sig = core.exc_signature(e)
        ctx.count("no_document:sphinx:" + sig["type"])
        return False
    cat = catalogue()
    if case.get("mathjax") and any("is being overridden by myst-parser" in msg for _, _, msg in rec0):
        ctx.count("sphinx_config_warning_triggered")
    for (t, st, msg) in rec0 + recS:
        if t == "myst" and st not in cat:
            ctx.violation("catalogue:unknown-myst-subtype", f"[sphinx] warning logged with tag myst.{st}", case, detail)
        if t:
            ctx.count(f"sphinx_tag:{t}.{st}")
    # log: lines with a tag matched by S must vanish, all others stay
    def recs(w):
        out = []
        for l in ANSI.sub("", w).splitlines():
            if not l.strip():
                continue
            if re.search(r"(WARNING|ERROR|CRITICAL|SEVERE): ", l) or not out:
                out.append(l)
            else:
                out[-1] += "\n" + l
        return out

    def ltag(l):
        # the mathjax-override warning is logged without a printed tag, but names its own suppression tag in its text
        return "myst.mathjax" if "is being overridden by myst-parser" in l else line_tag(l)

    tags0 = sorted(f"{t}.{st}" for t, st, _ in rec0 if t in ("myst", "ref") and st)
    # warnings logged while the application is being set up (configuration checks) are only in the stream
    for l in recs(w0):
        tg = line_tag(l)
        if tg and tg.split(".")[0] in ("myst", "ref") and tg not in tags0:
            tags0.append(tg)
    missing = [t for t in set(exp) if tags0.count(t) < exp.count(t)]
    if missing:
        ctx.violation("catalogue:sphinx-tag-differs-from-docutils:" + missing[0], f"[sphinx] constructs that warn with {missing} in the docutils front end produced tags {tags0}", case, {**detail, "stream": w0[-1200:]})
    l0, lS = recs(w0), recs(wS)
    for l in l0 + lS:
        # tags printed in the log (this also covers warnings emitted while the application is still being set up)
        tg = line_tag(l)
        if tg and tg.startswith("myst.") and tg.split(".", 1)[1] not in cat:
            ctx.violation("catalogue:unknown-myst-subtype", f"[sphinx] log line carries the tag {tg}, which is not in MystWarnings: {l[:160]}", case, detail)
    exp_l = sorted(l for l in l0 if not (ltag(l) and matches(S, ltag(l))))
    if exp_l != sorted(lS):
        removed = [l for l in exp_l if l not in lS]
        added = [l for l in lS if l not in exp_l]
        ctx.violation("suppress:sphinx-log:" + ("other-warning-lost" if removed else "suppressed-warning-still-logged"), f"[sphinx] S={S}: log lines lost {removed[:2]} / extra {added[:2]}", case, {**detail, "log0": w0[-1000:], "logS": wS[-1000:]})
    for name, a, b in (("parsed", d0, dS), ("resolved", r0, rS)):
        expd = strip_matched(a, S).pformat()
        if expd != b.pformat():
            import difflib

            diff = "\n".join(list(difflib.unified_diff(expd.splitlines(), b.pformat().splitlines(), "unsuppressed-minus-S", "suppressed", lineterm="", n=2))[:30])
            still = any(line_tag(sm.astext()) and matches(S, line_tag(sm.astext())) for sm in b.findall(nodes.system_message))
            ctx.violation("suppress:sphinx-doctree:" + ("suppressed-message-still-in-doctree" if still else "side-effect") + ":" + name, f"[sphinx] S={S}: the {name} doctree differs from the unsuppressed one minus the matched messages", case, {**detail, "diff": diff})
            break
    ctx.count("sphinx_pairs_compared")
    return True


def eval_case(ctx, case):
    if case["kind"] == "sphinx":
        return eval_sphinx(ctx, case)
    return eval_docutils(ctx, case)


# ------------------------------------------------------------------------------------------- static denominator


def static_sites():
    sites = set()
    for root, _, files in os.walk(core.PKG):
        for fn in files:
            if not fn.endswith(".py"):
                continue
            p = os.path.join(root, fn)
            try:
                tree = ast.parse(open(p, encoding="utf8").read())
            except SyntaxError:
                continue
            for fdef in ast.walk(tree):
                if isinstance(fdef, (ast.FunctionDef, ast.AsyncFunctionDef)):
                    for node in ast.walk(fdef):
                        if isinstance(node, ast.Call):
                            f = node.func
                            nm = f.attr if isinstance(f, ast.Attribute) else getattr(f, "id", "")
                            if nm in ("create_warning", "log_warning"):
                                sites.add(f"{os.path.relpath(p, core.PKG)}:{fdef.name}")
    return sites


# ------------------------------------------------------------------------------------------- workload


def rand_S(R, tags):
    pool = sorted(set(tags)) or ["myst.header"]
    k = R.randrange(7)
    if k == 0:
        return [R.choice(pool)]
    if k == 1:
        return ["myst"]
    if k == 2:
        return ["myst.*"]
    if k == 3:
        return R.sample(pool, min(len(pool), R.randint(2, 4)))
    if k == 4:
        return ["ref", R.choice(pool)]
    if k == 5:
        return [R.choice(["myst.nosuchtag", "other", "mys", "myst.head", "MYST", "myst.header.x"]), R.choice(pool)]
    return R.sample(pool, min(len(pool), 2)) + ["ref.*"]


def run_shard(ctx):
    R = ctx.rng
    quick = ctx.tier == "quick"
    names = [k for k in triggers(0) if not k.startswith("plain")]
    if ctx.shard == 0:
        ctx.notes["static_call_sites"] = sorted(static_sites())
        ctx.notes["catalogue"] = sorted(catalogue())
    nd = 700 if quick else 30000
    for i in range(nd):
        trig = [R.choice(names + ["plain", "plain_list"]) for _ in range(R.randint(1, 7))]
        case = {"kind": "docutils", "triggers": trig, "front": R.choice([None, None, None] + list(FRONT)), "config": [c for c in CONFIG_TRIGGERS if R.random() < 0.2]}
        _, _, exp = build(case)
        case["S"] = rand_S(R, exp)
        if i % 3 == 1:
            case["via"] = "string"  # the list as the command line / docutils.conf delivers it
        if i % 5 == 2 and not case.get("front"):
            case["doctitle"] = True
        if i % 7 == 3:
            case["report_level"] = 1  # verbose: what is suppressed must not come back at a lower level  # docutils' default: a lone section becomes the document title
        nt = eval_case(ctx, case)
        ctx.case(repr(case), bool(nt))
        if i < 2:
            ctx.sample(case)
        if (i & 0xF) == 0 and ctx.time_left() < ctx.budget_s * 0.24:
            break
    ns = 60 if quick else 3000
    for i in range(ns):
        trig = [R.choice(SPHINX_TRIGGERS) for _ in range(R.randint(1, 6))]
        exp = [triggers(0)[t][1] for t in trig if triggers(0)[t][1]]
        case = {"kind": "sphinx", "triggers": trig, "S": rand_S(R, exp), "mathjax": R.random() < 0.3, "deprecated": R.random() < 0.35}
        nt = eval_case(ctx, case)
        ctx.case(repr(case), bool(nt))
        if i == 0:
            ctx.sample(case)
        if ctx.out_of_time():
            break


def finalize(m, tier):
    c = m["counters"]
    for k, lo in (("docutils_pairs_compared", 5000), ("events_observed", 30000), ("sphinx_pairs_compared", 300)):
        if c.get(k, 0) < lo:
            m["inconclusive"].append(f"monitor observed only {c.get(k, 0)} '{k}' events (< {lo})")
    cat = m["notes"].get("catalogue", [])
    seen = {k.split(".", 1)[1] for k in c if k.startswith("tag:myst.")} | {k.split(".", 1)[1] for k in c if k.startswith("sphinx_tag:myst.")}
    m["notes"]["catalogue_members_triggered"] = sorted(seen)
    m["notes"]["catalogue_members_uncovered"] = sorted(set(cat) - seen)
    sites = set(m["notes"].get("static_call_sites", []))
    dyn = {k[5:] for k in c if k.startswith("site:")}
    m["notes"]["call_sites_reached"] = sorted(dyn)
    m["notes"]["call_sites_never_reached"] = sorted(s for s in sites if s not in dyn and not any(d.split(":")[0] == s.split(":")[0] and d.split(":")[1] == s.split(":")[1] for d in dyn))
    if len(seen) < 15:
        m["inconclusive"].append(f"only {len(seen)} of {len(cat)} catalogue members were triggered")
    mon.require_reach(m, ANCHORS)
