"""C15 - output depends only on document and config: no leakage across parses / workers.

History differential: every (document, configuration) of a pool is first parsed alone in a FRESH interpreter
(baseline); then random histories over the pool - with repeats, shared configuration objects, and other renderers
interleaved - run in one process and every output must equal its baseline byte for byte.  The pool contains probe
documents built to observe each piece of shared state the property names.  Schedule differential: generated Sphinx
projects are built with 1 and N read workers under injected per-document delays (which permute the order in which
worker environments are merged - logged at BuildEnvironment.merge_info_from) and with leaker/observer document pairs;
per-document doctrees, HTML and warnings must not depend on the schedule or on which other documents were read before.
"""

from __future__ import annotations

import hashlib
import json
import os
import random
import re
import shutil
import subprocess
import sys
import tempfile
import time

from .. import core, drive, mon
from ..gen import doc as G

PROP = "C15"
RULE = (
    "histories: random sequences (length 2-30, with repeats) over a pool of (document, configuration) pairs - marker-grammar "
    "documents under random configurations plus probe documents for Include.option_spec, substitution cycles, repeated "
    "headings, inventories under one key, md_env keys after failing includes, front-matter overrides - each compared with its "
    "fresh-interpreter baseline; schedules: generated Sphinx projects (8-14 documents incl. leaker/observer pairs) built with "
    "parallel in {1,2,4} under seeded per-document delays, and observers built with and without the leakers; distinct by hash "
    "of (history) / (project, schedule); non-trivial = history length >= 2 / project built under >= 2 schedules"
)
ASSUME = [
    "docutils' own process-global registries ('role' and 'default-role' directives register into docutils' role table) are documented docutils behaviour outside MyST; the generators do not emit those two directives",
    "uuid4 equation labels of the Sphinx amsmath renderer are masked; temporary paths are normalised",
    "a fresh-interpreter baseline costs ~0.4 s, so pools are small (24 / 120 items per shard)",
]
SHARDS = {"quick": 16, "thorough": 16}
BUDGET_S = {"quick": 55, "thorough": 1500}
WATCHDOG_S = {"quick": 900, "thorough": 3 * 3600}
ANCHORS = ["Parser.parse", "DocutilsRenderer.setup_render", "main.merge_file_level", "DocutilsRenderer.run_directive", "MockIncludeDirective.run", "DocutilsRenderer.render_substitution", "MystParser.parse", "FigureMarkdown.run"]

TMP = None
EXT = list(G.ALL_EXT)


def setup(ctx):
    global TMP
    TMP = tempfile.mkdtemp(prefix="c15_")
    write_support(TMP)
    mon.start_reach(ctx)


def teardown(ctx):
    mon.finish_reach(ctx, ANCHORS)
    shutil.rmtree(TMP, ignore_errors=True)


def write_support(d):
    W = lambda n, s: open(os.path.join(d, n), "w", encoding="utf8").write(s)  # noqa: E731
    os.makedirs(os.path.join(d, "sub"), exist_ok=True)
    W("inc.rst", "Included rst paragraph.\n")
    W("inc.md", "# Included heading\n\nincluded para ![img](pic.png) [doc](other.md)\n")
    W("sub/inc2.md", "## Sub included\n\n![rel](rel.png)\n")
    W("bad.md", "para\n\n```{include} nosuch-file.md\n```\n")
    import zlib

    def inv(rows):
        body = "".join(f"{n} {dt} 1 {loc} -\n" for n, dt, loc in rows)
        return b"# Sphinx inventory version 2\n# Project: P\n# Version: 1\n# The remainder of this file is compressed using zlib.\n" + zlib.compress(body.encode())

    open(os.path.join(d, "one.inv"), "wb").write(inv([("alpha", "py:function", "a.html#$")]))
    open(os.path.join(d, "two.inv"), "wb").write(inv([("beta", "py:function", "b.html#$")]))


# ------------------------------------------------------------------------------------------- pool

# ONE configuration value shared by several pool items (the property: "when the configuration object is reused")
WIKI_CFG = {"enable_extensions": ["attrs_inline", "attrs_block", "substitution"], "url_schemes": {"https": None, "wiki": {"url": "https://w.org/{{path}}", "title": "W {{path}}", "classes": ["wiki"]}},
            "substitutions": {"nested": {"a": [1, 2]}, "s": "text"}, "html_meta": {"description": "d"}, "fence_as_directive": ["note"], "number_code_blocks": ["python"], "disable_syntax": ["table"]}

PROBES = [
    # (name, text, cfg)
    ("evalrst_include_myst_option", "```{eval-rst}\n.. include:: inc.rst\n   :heading-offset: 1\n```\n\nafter\n", {}),
    ("myst_include", "```{include} inc.md\n:heading-offset: 1\n:relative-images:\n:relative-docs: other\n```\n\nafter ![own](own.png)\n", {}),
    ("myst_include_sub", "```{include} sub/inc2.md\n:relative-images:\n```\n\n![own](own.png)\n", {}),
    ("failing_include_then_image", "```{include} bad.md\n:relative-images:\n```\n\n![after](after.png) [d](d.md)\n", {}),
    ("plain_image_and_headings", "# A\n\n# A\n\n## A\n\n![img](x/y.png) [](#a) [](#a-1) [](#a-2)\n", {"heading_anchors": 2}),
    ("subst_cycle", "{{ a }}\n\n{{ b }}\n\n{{ a }} again {{ ok }}\n", {"enable_extensions": ["substitution"], "substitutions": {"a": "{{ b }}", "b": "{{ a }}", "ok": "fine {{ ok2 }}", "ok2": "deep"}}),
    ("subst_front", "---\nmyst:\n  substitutions:\n    ok: FRONT\n---\n{{ ok }} {{ ok2 }}\n", {"enable_extensions": ["substitution"], "substitutions": {"ok": "GLOBAL", "ok2": "G2"}}),
    ("front_overrides", "---\nmyst:\n  enable_extensions: [deflist]\n  url_schemes: [http]\n  heading_anchors: 1\n  footnote_sort: false\n---\n# H\n\nterm\n: def\n\n[x](https://e.org) [y](http://e.org) x[^f]\n\n[^f]: fn\n\n~~s~~ $m$\n",
     {"enable_extensions": ["strikethrough", "dollarmath"]}),
    ("uses_globals", "# H\n\n## H2\n\nterm\n: def\n\n[x](https://e.org) [y](http://e.org) x[^f] [](#h2)\n\n[^f]: fn\n\n~~s~~ $m$ <img src=\"i.png\">\n", {"enable_extensions": ["strikethrough", "dollarmath"], "heading_anchors": 2}),
    ("inv_one", "[](inv:k#alpha) [](inv:k#beta) [](inv:#al*)\n", {"inventories": {"k": ["https://one.org", "one.inv"]}}),
    ("inv_two", "[](inv:k#alpha) [](inv:k#beta) [](inv:#be*)\n", {"inventories": {"k": ["https://two.org", "two.inv"]}}),
    ("inv_one_other_base", "[](inv:k#alpha) [x](inv:k#alpha)\n", {"inventories": {"k": ["https://three.org/base", "one.inv"]}}),
    ("footnotes_targets", "(t)=\n# T\n\nx[^a] y[^b] [](#t)\n\n[^b]: B\n[^a]: A\n", {}),
    ("html_img_raw", "<img src=\"a.png\" alt=\"A\">\n\n<div class=\"admonition\">x</div>\n", {}),
    ("html_img_on", "<img src=\"a.png\" alt=\"A\">\n\n<div class=\"admonition\">x</div>\n", {"enable_extensions": ["html_image", "html_admonition"]}),
    ("fence_directive", "```note\nbody\n```\n\n```python\nx\n```\n", {"fence_as_directive": ["note"], "number_code_blocks": ["python"]}),
    ("fence_plain", "```note\nbody\n```\n\n```python\nx\n```\n", {}),
    ("commonmark", "# H\n\n{role}`x` {{ k }} [^f] ~~s~~\n\n```{note}\nx\n```\n", {"commonmark_only": True}),
    ("slugfunc", "# Ab C\n\n## Ab C\n\n[](#S-AB_C)\n", {"heading_anchors": 2, "heading_slug_func": "mv.slugfuncs.shout"}),
    ("warnings_suppressed", "### skip\n\n{nosuch}`r`\n", {"suppress_warnings": ["myst.header"]}),
    ("warnings_plain", "### skip\n\n{nosuch}`r`\n", {}),
    # items that share WIKI_CFG (nested dicts / lists of the configuration must never be written to)
    ("shared_cfg_link_with_class", "[A](wiki:A){.big #lnk} and [B](wiki:B){.other}\n", WIKI_CFG),
    ("shared_cfg_link_plain", "[C](wiki:C) [D](https://e.org) {{ s }} {{ nested }}\n\n```python\nx\n```\n\n```note\nn\n```\n\n|a|\n|-|\n", WIKI_CFG),
    ("shared_cfg_front_merge", "---\nmyst:\n  url_schemes:\n    wiki:\n      url: https://other/{{path}}\n      classes: [front]\n  substitutions:\n    s: FRONT\n  html_meta:\n    keywords: k\n---\n[E](wiki:E){.cls} {{ s }}\n", WIKI_CFG),
    # html fragments that stop in the middle of a construct, with the html extensions on (whatever reads them must not carry the rest into the next fragment)
    ("html_cut_tag_on", "<div class=\"admonition\"\n\ntext\n\n<img src=\"a.png\" alt=\"A\">\n", {"enable_extensions": ["html_image", "html_admonition"]}),
    ("html_open_comment_on", "para\n\n<!-- never closed\n", {"enable_extensions": ["html_image", "html_admonition"]}),
    ("html_open_style_on", "text <style> p { } and <script> x\n\n<div>a</div\n\nend &amp\n", {"enable_extensions": ["html_image", "html_admonition"]}),
    # docutils' process-wide registries
    ("default_role_set", "```{default-role} math\n```\n\n```{eval-rst}\n`a+b`\n```\n", {}),
    ("default_role_use", "```{eval-rst}\n`a+b` :emphasis:`e`\n```\n\n```{note}\n```{eval-rst}\n`c`\n```\n```\n", {}),
    ("role_define", "```{role} shoutx(emphasis)\n:class: loud\n```\n\n{shoutx}`x`\n", {}),
    ("classes_repeated", "[a]{.red .bold .red .wide} [b]{.note .wide}{.tip .note}\n\n{.c1 .c2 .c1 .c3 .c4 .c5}\npara\n\n![i](x.png){.r .s .r .t .u}\n", {"enable_extensions": ["attrs_inline", "attrs_block"]}),
    ("role_use_undefined", "{shoutx}`x` and\n\n```{eval-rst}\n:shoutx:`y` :rrx:`z`\n```\n", {}),
    ("evalrst_role_define", "```{eval-rst}\n.. role:: rrx(strong)\n\n:rrx:`x`\n```\n\n{rrx}`y`\n", {}),
    ("class_pending", "```{class} special\n```\n\npara\n\n```{eval-rst}\n.. class:: other\n\npara2\n```\n", {}),
    ("title_and_meta", "```{title} New Title\n```\n\n```{meta}\n:keywords: a, b\n```\n\n# H\n", {}),
]


# the public Python API with per-call settings: what one call was given is not part of the next call's configuration
_API_TEXT = "# Top\n\n## Sub title\n\nterm\n: definition\n\n[](#sub-title) ~~gone~~ {{ k }}\n\n- [ ] task\n"
API_ITEMS = [
    {"name": "api_html5_demo_with_settings", "api": "html5_demo", "text": _API_TEXT, "cfg": {}, "settings": {"myst_enable_extensions": ["deflist", "tasklist", "strikethrough", "substitution"], "myst_heading_anchors": 2, "myst_substitutions": {"k": "v"}}},
    {"name": "api_html5_demo_plain", "api": "html5_demo", "text": _API_TEXT, "cfg": {}, "settings": {}},
    {"name": "api_html5_demo_other_settings", "api": "html5_demo", "text": _API_TEXT, "cfg": {}, "settings": {"myst_all_links_external": True, "myst_title_to_header": True, "initial_header_level": 3}},
]


def make_pool(seed, n):
    R = random.Random(seed)
    pool = [{"name": nm, "text": tx, "cfg": cfg} for nm, tx, cfg in PROBES] + [dict(x) for x in API_ITEMS]
    i = 0
    while len(pool) < n:
        g = G.Gen(random.Random(R.getrandbits(40)), max_depth=3, hr_in_container=False, blocks=[b for b in G.Gen.BLOCKS_STATIC + G.Gen.BLOCKS_DYNAMIC if b not in ("hr",)])
        text, _ = g.document(1, 4)
        cfg = G.random_config(R)
        if "inventories" in cfg:
            del cfg["inventories"]
        pool.append({"name": f"gen{i}", "text": text, "cfg": cfg})
        i += 1
    return pool[:n] if n < len(pool) else pool


def render_item(item, workdir):
    """(pformat, warnings) with paths normalised; the configuration objects of ``item`` are passed as they are (shared)."""
    if item.get("api") == "html5_demo":
        import io as _io

        from myst_parser.parsers.docutils_ import to_html5_demo

        ws = _io.StringIO()
        try:
            out = to_html5_demo(item["text"], warning_stream=ws, halt_level=5, **item["settings"])
        except Exception as e:  # noqa: BLE001
            out = f"EXCEPTION {type(e).__name__}: {e}"
        return out.replace(workdir, "WORKDIR"), ws.getvalue().replace(workdir, "WORKDIR")
    kw = G.cfg_to_overrides(item["cfg"])
    if "myst_inventories" in kw:
        kw["myst_inventories"] = {k: [v[0], os.path.join(workdir, v[1])] for k, v in kw["myst_inventories"].items()}
    try:
        doc, w = drive.parse(item["text"], source_path=os.path.join(workdir, "doc.md"), doctitle_xform=False, **kw)
        out = doc.pformat()
    except Exception as e:  # noqa: BLE001
        out, w = f"EXCEPTION {type(e).__name__}: {e}", ""
    norm = lambda s: s.replace(workdir, "WORKDIR")  # noqa: E731
    return norm(out), norm(w)


def baseline_main(argv):
    """Child process: parse exactly one pool item first in a fresh interpreter."""
    spec = json.load(open(argv[0]))
    core.assert_tree()
    out, w = render_item(spec["item"], spec["workdir"])
    json.dump({"out": out, "w": w}, open(argv[1], "w"))


def fresh_baseline(item):
    inp = os.path.join(TMP, "b_in.json")
    outp = os.path.join(TMP, "b_out.json")
    json.dump({"item": item, "workdir": TMP}, open(inp, "w"))
    env = dict(os.environ)
    # the reference interpreter runs with ANOTHER string-hash seed than this process: nothing in a document may depend on it
    env["PYTHONHASHSEED"] = str(1 + (int(env.get("PYTHONHASHSEED", "0") or 0) + 12345) % 4000000000)
    r = subprocess.run([sys.executable, "-c", "import sys; from mv.checks import c15; c15.baseline_main(sys.argv[1:])", inp, outp], env=env, cwd=core.VERIF, capture_output=True, text=True, timeout=120)
    if r.returncode != 0:
        return None, r.stderr[-400:]
    d = json.load(open(outp))
    return (d["out"], d["w"]), None


def eval_history(ctx, case):
    """case: {"pool_seed", "pool_n", "history": [indices], "interleave": [...]}  - baselines are computed on demand and cached per shard."""
    pool = POOLS.setdefault((case["pool_seed"], case["pool_n"]), make_pool(case["pool_seed"], case["pool_n"]))
    base = BASE.setdefault((case["pool_seed"], case["pool_n"]), {})
    for pos, idx in enumerate(case["history"]):
        item = pool[idx]
        if idx not in base:
            b, err = fresh_baseline(item)
            if b is None:
                ctx.note_inconclusive(f"fresh-interpreter baseline failed: {err}")
                return False
            base[idx] = b
            ctx.count("fresh_baselines")
        inter = case.get("interleave", {}).get(str(pos))
        if inter == "html":
            try:
                drive.to_html(item["text"], source_path=os.path.join(TMP, "doc.md"), **G.cfg_to_overrides(item["cfg"]))
            except Exception:  # noqa: BLE001
                pass
        elif inter == "html5_demo":
            try:
                from myst_parser.parsers.docutils_ import to_html5_demo

                to_html5_demo(item["text"])
            except Exception:  # noqa: BLE001
                pass
        elif inter == "tokens":
            try:
                from markdown_it.renderer import RendererHTML

                from myst_parser.config.main import MdParserConfig
                from myst_parser.parsers.mdit import create_md_parser

                create_md_parser(MdParserConfig(enable_extensions=EXT), RendererHTML).render(item["text"])
            except Exception:  # noqa: BLE001
                pass
        out, w = render_item(item, TMP)
        ctx.count("history_steps")
        if (out, w) != base[idx]:
            prev = [pool[j]["name"] for j in case["history"][:pos]]
            import difflib

            diff = "\n".join(list(difflib.unified_diff((base[idx][0] + "\n--warnings--\n" + base[idx][1]).splitlines(), (out + "\n--warnings--\n" + w).splitlines(), "fresh", "after-history", lineterm="", n=1))[:40])
            what = "warnings" if out == base[idx][0] else "doctree"
            ctx.violation(f"history:{what}-differs:{item['name'] if not item['name'].startswith('gen') else 'generated'}", f"document '{item['name']}' rendered differently after the history {prev[-6:]} than when parsed first in a fresh interpreter", case,
                          {"item": item, "diff": diff, "history_names": prev})
            return True
    return True


POOLS: dict = {}
BASE: dict = {}


# ------------------------------------------------------------------------------------------- Sphinx schedules


def sphinx_project(R, math_front=False, html_image=False):
    files = {}
    names = []
    nd = R.randint(7, 12)
    for k in range(nd):
        name = f"d{k:02d}"
        L = [f"# Title {k}", "", f"## Sec {k}", "", f"## Sec {k}", "", f"(lbl-{k})=", f"### Labelled {k}", ""]
        L += [f"text[^a{k}] more[^b{k}] $x_{k}$", "", f"[^b{k}]: B{k}", f"[^a{k}]: A{k}", ""]
        L += ["$$", f"e = {k}", f"$$ (eq{k})", "", f"{{eq}}`eq{k}`", ""]
        L += ["\\begin{equation}", f"a = {k}", "\\end{equation}", ""]
        L += ["```{include} shared.inc", "```", ""]
        names.append(name)
        files[name + ".md"] = "\n".join(L)
    for k, name in enumerate(names):
        others = R.sample(names, min(4, len(names)))
        L = [f"[]({o}.md) [x]({o}.md#sec-{int(o[1:])}-1) [](#lbl-{int(o[1:])})" for o in others]
        files[name + ".md"] += "\n".join(L) + "\n"
    files["shared.inc"] = "shared *included* text\n"
    # leaker / observer pairs (sorted reading order puts a_* before z_*)
    files["a_leak1.md"] = "---\nmyst:\n  enable_extensions: [deflist]\n---\n# Leak1\n\n```{figure-md} fig-t\n<img src=\"f.png\" alt=\"x\">\n\ncaption\n```\n\nterm\n: def\n"
    files["z_obs1.md"] = "# Obs1\n\n<img src=\"raw.png\" alt=\"raw\">\n\nterm\n: not a deflist here\n"
    files["a_leak2.md"] = "---\nmyst:\n  substitutions:\n    key: LEAKED\n  heading_anchors: 4\n  footnote_sort: false\n  url_schemes: [http]\n  sub_delimiters: ['[', ']']\n---\n# Leak2\n\n#### deep\n\n[[ key ]] x[^q]\n\n[^q]: q\n"
    files["z_obs2.md"] = "# Obs2\n\n#### deep obs\n\n{{ key }} [l](https://e.org) [](#deep-obs) y[^r] and[^r0]\n\n[^r0]: r0\n[^r]: r\n\n```python\ncode\n```\n\n:::{note}\nnot a fence\n:::\n\n- [ ] task\n\n[d](d00.md) last\n"
    files["a_leak4.md"] = "---\nmyst:\n  footnote_transition: false\n---\n# Leak4\n\n```{figure-md} fig-u\n<img src=\"g.png\" alt=\"y\">\n\ncaption two\n```\n\n```{note}\nfence\n```\n"
    files["a_leak5.md"] = "---\nmyst:\n  enable_extensions: [nosuchextension]\n  url_schemes: 5\n  fence_as_directive: 7\n---\n# Leak5\n\n```{figure-md} fig-v\n<img src=\"h.png\" alt=\"z\">\n\ncaption three\n```\n"
    # read directly before the observers: file-level values of every kind, different from the project's
    files["y_leak6.md"] = ("---\nmyst:\n  footnote_sort: false\n  footnote_transition: false\n  title_to_header: true\n  enable_extensions: [colon_fence, attrs_inline, deflist, tasklist]\n  heading_anchors: 0\n"
                           "  number_code_blocks: [python]\n  all_links_external: true\n  html_meta:\n    description: leaked\ntitle: Leak Six\n---\n\ntext[^z2] and[^z1]\n\n[^z1]: one\n[^z2]: two\n\nafter\n")
    files["a_leak3.md"] = "# Leak3\n\n```{include} shared.inc\n:heading-offset: 2\n:relative-docs: d\n:relative-images:\n```\n"
    files["z_obs3.md"] = "# Obs3\n\n```{eval-rst}\n.. include:: shared.inc\n   :heading-offset: 1\n```\n\n![i](pic.png) [d](d00.md)\n"
    toc = ["# Index", "", "```{toctree}"] + sorted(n[:-3] for n in files if n.endswith(".md")) + ["```", ""]
    files["index.md"] = "\n".join(toc)
    conf = {"myst_enable_extensions": ["dollarmath", "amsmath", "substitution", "attrs_inline", "strikethrough"], "myst_heading_anchors": 3, "myst_substitutions": {"key": "GLOBAL"},
            "myst_url_schemes": {"http": None, "https": None, "wiki": {"url": "https://w.org/{{path}}", "classes": ["wiki"]}}}
    # the same warnings (same text) in a leaker and in the observers: every document reports its own
    files["a_leak7.md"] = "# Leak7\n\n[A](wiki:A){.big} [B](wiki:B){.huge #b}\n\n~~gone~~ {nosuchrole}`x`\n\n#### skipped level\n\n```{nosuchdirective}\n```\n"
    files["z_obs1.md"] += "\n~~gone~~ {nosuchrole}`x`\n\n#### skipped level\n\n```{nosuchdirective}\n```\n"
    files["z_obs3.md"] += "\n~~gone~~ {nosuchrole}`x`\n"
    files["d00.md"] += "\n[W](wiki:W0){.zero}\n"
    files["z_obs2.md"] += "\n[W](wiki:W) [X](wiki:X){.own}\n"
    for nm in names[1:]:
        files[nm + ".md"] += "\n[W](wiki:W)\n"
    # figure-md in a document WITHOUT front matter works on the project's own configuration object
    files["a_leak8.md"] = "# Leak8\n\n```{figure-md} fig-w\n<img src=\"k.png\" alt=\"w\">\n\ncaption w\n```\n\n<img src=\"after-figure.png\" alt=\"same document, after the figure\">\n"
    # documents with the same file name in different directories, and a shared file included by two documents, each with a numbered equation:
    # whatever key MyST generates for it in the project-wide math domain must not make one document's warnings depend on the other
    files["a_leak9/z_obs2.md"] = "# Leak9\n\n\\begin{equation}\nleak = 9\n\\end{equation}\n\n```{include} ../shared_eq.inc\n```\n"
    files["z_obs2.md"] += "\n\\begin{equation}\nobs = 2\n\\end{equation}\n\n```{include} shared_eq.inc\n```\n"
    files["sub/d00.md"] = "# Sub d00\n\n\\begin{equation}\nsub = 0\n\\end{equation}\n"
    files["sub/deeper/d00.md"] = "# Deeper d00\n\n\\begin{equation}\ndeeper = 0\n\\end{equation}\n\n\\begin{align}\nx &= 1\n\\end{align}\n"
    files["shared_eq.inc"] = "\\begin{gather}\nshared = 1\n\\end{gather}\n"
    files["index.md"] = "\n".join(["# Index", "", "```{toctree}"] + sorted(n[:-3] for n in files if n.endswith(".md") and n != "index.md") + ["```", ""])
    if html_image:
        # the project itself enables what figure-md switches on temporarily: it must still be on afterwards
        conf["myst_enable_extensions"] = conf["myst_enable_extensions"] + ["html_image", "html_admonition"]
    if math_front:
        # the math extensions enabled per document (front matter) instead of for the project
        conf["myst_enable_extensions"] = [e for e in conf["myst_enable_extensions"] if e not in ("dollarmath", "amsmath")]
        for k, nm in enumerate(names):
            if k % 2:
                files[nm + ".md"] = "---\nmyst:\n  enable_extensions: [dollarmath, amsmath, substitution, attrs_inline, strikethrough]\n---\n" + files[nm + ".md"]
    return files, conf


DELAY_CODE = '''
import time, random, os
from myst_parser.parsers import sphinx_ as _sp
_orig_parse = _sp.MystParser.parse
def _slow_parse(self, inputstring, document):
    seed = int(os.environ.get("C15_DELAY_SEED", "0"))
    if seed:
        r = random.Random(f"{seed}/{document['source']}")
        time.sleep(r.random() * 0.03)
    return _orig_parse(self, inputstring, document)
_sp.MystParser.parse = _slow_parse
'''

UUID = re.compile(r"[0-9a-f]{8}-[0-9a-f]{4}-[0-9a-f]{4}-[0-9a-f]{4}-[0-9a-f]{12}")


def sphinx_build(files, conf, parallel, delay_seed):
    from sphinx.environment import BuildEnvironment

    os.environ["C15_DELAY_SEED"] = str(delay_seed)
    merges = []
    orig_merge = BuildEnvironment.merge_info_from

    def logging_merge(self, docnames, other, app):
        merges.append(tuple(sorted(docnames)))
        return orig_merge(self, docnames, other, app)

    BuildEnvironment.merge_info_from = logging_merge
    b = drive.SphinxBuild(files, conf=conf, builder="html", parallel=parallel, confpy_extra=DELAY_CODE)
    try:
        b.build()
        out = {}
        for dn in sorted(b.app.env.all_docs):
            p = os.path.join(b.out, dn + ".html")
            html = open(p, encoding="utf8").read() if os.path.exists(p) else ""
            body = html.split('<div class="body" role="main">')[-1].split('<div class="sphinxsidebar"')[0]
            tree = UUID.sub("UUID", b.doctree(dn).pformat().replace(b.src, "SRC"))
            head = html.split('<div class="body" role="main">')[0]  # scripts and settings written into the page head (e.g. the MathJax configuration)
            out[dn] = (hashlib.sha1(UUID.sub("UUID", body).encode()).hexdigest(), tree, hashlib.sha1(UUID.sub("UUID", head).encode()).hexdigest())
        warns = sorted(UUID.sub("UUID", re.sub(r"\x1b\[[0-9;]*m", "", l)) for l in b.norm_warnings().splitlines() if l.strip())
        return out, warns, merges
    finally:
        BuildEnvironment.merge_info_from = orig_merge
        b.close()


def eval_sphinx(ctx, case):
    R = random.Random(case["seed"])
    files, conf = sphinx_project(R, math_front=bool(case.get("math_front")), html_image=bool(case.get("html_image")))
    try:
        base, wbase, _ = sphinx_build(files, conf, 1, 0)
    except Exception as e:  # noqa: BLE001
        sig = core.exc_signature(e)
        ctx.violation(f"sphinx-build-raises:{sig['type']}", f"serial build raised {sig['type']}: {sig['msg'][:200]}", case, sig)
        return False
    ctx.count("sphinx_serial_builds")
    orders = set()
    for (par, dseed) in case["schedules"]:
        try:
            out, w, merges = sphinx_build(files, conf, par, dseed)
        except Exception as e:  # noqa: BLE001
            sig = core.exc_signature(e)
            ctx.violation(f"sphinx-build-raises:parallel:{sig['type']}", f"-j{par} build raised {sig['type']}: {sig['msg'][:200]}", case, sig)
            continue
        ctx.count("sphinx_parallel_builds")
        orders.add(tuple(merges))
        ctx.count("merge_events_logged", len(merges))
        diff_docs = [d for d in base if out.get(d, (None, None))[0] != base[d][0]]
        diff_trees = [d for d in base if out.get(d, (None, None))[1] != base[d][1]]
        diff_heads = [d for d in base if out.get(d, (None, None, None))[2] != base[d][2]]
        if diff_heads and not (diff_docs or diff_trees):
            ctx.violation("schedule:page-head-differs", f"-j{par} (delay seed {dseed}): the <head> of pages {sorted(diff_heads)[:5]} (scripts, MathJax configuration, ...) differs from the serial build", case, {"merge_order": merges[:6]})
        if diff_docs or diff_trees:
            d0 = (diff_trees or diff_docs)[0]
            import difflib

            diff = "\n".join(list(difflib.unified_diff(base[d0][1].splitlines(), out[d0][1].splitlines(), "-j1", f"-j{par}", lineterm="", n=1))[:30])
            ctx.violation("schedule:output-differs", f"-j{par} (delay seed {dseed}): documents {sorted(set(diff_docs + diff_trees))[:5]} differ from the serial build", case, {"diff": diff, "merge_order": merges[:6]})
        if w != wbase:
            lost = [l for l in wbase if l not in w][:3]
            extra = [l for l in w if l not in wbase][:3]
            ctx.violation("schedule:warnings-differ", f"-j{par}: warnings lost {lost} / extra {extra}", case, {"serial": wbase[:20], "parallel": w[:20]})
    ctx.count("distinct_merge_orders", len(orders))
    # observers with and without the leakers (serial)
    lean = {k: v for k, v in files.items() if "_leak" not in k}
    lean["index.md"] = "\n".join(l for l in files["index.md"].splitlines() if "_leak" not in l) + "\n"
    try:
        alone, walone, _ = sphinx_build(lean, conf, 1, 0)
    except Exception as e:  # noqa: BLE001
        ctx.count("no_document:sphinx:" + type(e).__name__)
        return True
    for obs in ("z_obs1", "z_obs2", "z_obs3"):
        ctx.count("observer_pairs_compared")
        if base[obs][1] != alone[obs][1] or base[obs][0] != alone[obs][0]:
            import difflib

            diff = "\n".join(list(difflib.unified_diff(alone[obs][1].splitlines(), base[obs][1].splitlines(), "without-leakers", "after-leakers", lineterm="", n=1))[:30])
            ctx.violation(f"leak:sphinx:{obs}", f"document {obs} is rendered differently when the leaker documents are read before it in the same build", case, {"diff": diff})
        wo = [l for l in wbase if obs in l]
        wa = [l for l in walone if obs in l]
        if wo != wa:
            ctx.violation(f"leak:sphinx-warnings:{obs}", f"warnings of {obs} depend on the leakers: {wa[:2]} vs {wo[:2]}", case, None)
    return True


def eval_reuse(ctx, case):
    """The Python API: ONE Markdown parser object (create_md_parser) renders several texts one after the other; every document must come out as with a parser of its own."""
    import io as _io

    from docutils.frontend import get_default_settings
    from docutils.utils import new_document

    from myst_parser.config.main import MdParserConfig
    from myst_parser.mdit_to_docutils.base import DocutilsRenderer
    from myst_parser.parsers.docutils_ import Parser
    from myst_parser.parsers.mdit import create_md_parser

    pool = POOLS.setdefault((case["pool_seed"], case["pool_n"]), make_pool(case["pool_seed"], case["pool_n"]))
    cfg_item = pool[case["cfg_of"] % len(pool)]
    cfg = {k: v for k, v in cfg_item["cfg"].items() if k not in ("inventories", "suppress_warnings")}
    try:
        shared = create_md_parser(MdParserConfig(**cfg), DocutilsRenderer)
    except Exception:  # noqa: BLE001
        return True

    def render(md, text, k):
        settings = get_default_settings(Parser)
        ws = _io.StringIO()
        settings.warning_stream, settings.halt_level = ws, 5
        doc = new_document(os.path.join(TMP, "doc.md"), settings=settings)
        md.options["document"] = doc
        try:
            md.render(text)
            return doc.pformat().replace(TMP, "WORKDIR") + "\n--warnings--\n" + ws.getvalue().replace(TMP, "WORKDIR")
        except Exception as e:  # noqa: BLE001
            return f"EXCEPTION {type(e).__name__}: {e}"

    for k, idx in enumerate(case["texts"]):
        text = pool[idx % len(pool)]["text"]
        got = render(shared, text, k)
        want = render(create_md_parser(MdParserConfig(**cfg), DocutilsRenderer), text, k)
        ctx.count("reuse_renders_compared")
        if got != want:
            import difflib

            diff = "\n".join(list(difflib.unified_diff(want.splitlines(), got.splitlines(), "own-parser", "shared-parser", lineterm="", n=1))[:30])
            ctx.violation("reuse:shared-parser-object-output-differs", f"text number {k + 1} rendered by a parser object that rendered {k} other text(s) before differs from the same text rendered by a new parser with the same configuration", case,
                          {"diff": diff, "text": text[:1500], "config": repr(cfg)[:500]})
            return True
    return True


def eval_case(ctx, case):
    if case["kind"] == "sphinx":
        return eval_sphinx(ctx, case)
    if case["kind"] == "reuse":
        return eval_reuse(ctx, case)
    return eval_history(ctx, case)


def run_shard(ctx):
    R = ctx.rng
    quick = ctx.tier == "quick"
    pool_n = len(PROBES) + len(API_ITEMS) + 5 if quick else 90
    pool_seed = ctx.seed * 1000 + ctx.shard
    pool = POOLS.setdefault((pool_seed, pool_n), make_pool(pool_seed, pool_n))
    nh = 60 if quick else 4000
    t_hist = 0.55 if quick else 0.6
    for i in range(nh):
        L = R.randint(2, 30)
        hist = [R.randrange(len(pool)) for _ in range(L)]
        if R.random() < 0.5:  # make probe interactions likely
            hist[: R.randint(1, 4)] = [R.randrange(len(PROBES) + len(API_ITEMS)) for _ in range(R.randint(1, 4))]
        inter = {str(p): R.choice(["html", "html5_demo", "tokens"]) for p in range(L) if R.random() < 0.15}
        case = {"kind": "history", "pool_seed": pool_seed, "pool_n": pool_n, "history": hist, "interleave": inter}
        eval_case(ctx, case)
        ctx.case(("history", tuple(hist)), True)
        if i == 0:
            ctx.sample({"history": [pool[j]["name"] for j in hist], "interleave": inter})
        if i >= 12 and ctx.time_left() < ctx.budget_s * (1 - t_hist):  # a floor of histories even on a loaded machine
            break
    for i in range(25 if quick else 1500):
        case = {"kind": "reuse", "pool_seed": pool_seed, "pool_n": pool_n, "cfg_of": R.randrange(len(pool)), "texts": [R.randrange(len(pool)) for _ in range(R.randint(2, 5))]}
        if R.random() < 0.5:
            case["texts"][-1] = case["texts"][0]  # the same text again
        eval_case(ctx, case)
        ctx.case(("reuse", repr(case)), True)
    ns = 1 if quick else 40
    for i in range(ns):
        case = {"kind": "sphinx", "seed": R.getrandbits(40), "math_front": (ctx.shard + i) % 2 == 1, "html_image": (ctx.shard // 2 + i) % 2 == 1, "schedules": [[2, 0], [4, R.randint(1, 999)]] if quick else [[2, 0], [4, R.randint(1, 999)], [4, R.randint(1, 999)], [8, R.randint(1, 999)]]}
        eval_case(ctx, case)
        ctx.case(("sphinx", case["seed"], repr(case["schedules"])), True)
        if i == 0:
            ctx.sample(case)
        if ctx.out_of_time():
            break


def finalize(m, tier):
    c = m["counters"]
    for k, lo in (("history_steps", 1500), ("fresh_baselines", 300), ("sphinx_serial_builds", 12), ("sphinx_parallel_builds", 24), ("merge_events_logged", 50), ("observer_pairs_compared", 30)):
        if c.get(k, 0) < lo:
            m["inconclusive"].append(f"monitor observed only {c.get(k, 0)} '{k}' events (< {lo})")
    mon.require_reach(m, ANCHORS)
