"""C20 - docutils security settings are honoured for every input.

Differential over raw_enabled x file_insertion_enabled on documents in which every construct able to carry raw markup or
a file path is instantiated with a numbered sentinel.  Observed: nodes.raw in the final doctree, unescaped sentinel
markup in the html5 output, sentinel file content, refusal warnings, the trailing marker paragraph - and, through
sys.addaudithook, every open() of a file under the sentinel directory (the 'reads any file' event itself).
"""

from __future__ import annotations

import os
import re
import shutil
import tempfile

from .. import core, drive, mon

PROP = "C20"
RULE = (
    "documents assembled from a random subset / order of 30 constructs (7 CommonMark html-block start conditions, inline "
    "html, raw directive with content and :file:, raw-derived role via {role} and via eval-rst, '.. raw::' in eval-rst, hard "
    "break, strikethrough, html in heading / table / footnote / directive body / quote / list / substitution value / included "
    "file; include plain/literal/code, csv-table :file:, eval-rst include / csv-table / raw :file:, figure, image, code-block) each "
    "with its own sentinel, rendered under the four combinations of raw_enabled x file_insertion_enabled; distinct by hash "
    "of (construct sequence, containers); every construct also inside a Markdown fragment that an rST host document includes with ':parser: myst_parser.docutils_' (raw disabled); non-trivial = >= 2 sentinel constructs"
)
ASSUME = [
    "anchored in the docutils front end (Parser.parse post-processing, MockIncludeDirective); Sphinx's parser does not implement the raw filter and is not claimed",
    "plain text between stripped inline tags legitimately survives, so the output is searched for the unescaped sentinel MARKUP ('<x-sentinel-N')",
    "':url:' of the raw directive is not generated (no network in the sandbox)",
]
SHARDS = {"quick": 16, "thorough": 16}
BUDGET_S = {"quick": 45, "thorough": 900}
ANCHORS = ["Parser.parse", "MockIncludeDirective.run", "DocutilsRenderer.render_restructuredtext", "DocutilsRenderer.render_html_block", "DocutilsRenderer.render_hardbreak", "DocutilsRenderer.render_s", "DocutilsRenderer.render_myst_role", "MockInliner.__init__"]

TMP = None
SDIR = None
AUDIT = None
AUDIT_STD = None
NEEDLE = "sentinel-dir-c20"


def setup(ctx):
    global TMP, SDIR, AUDIT
    TMP = tempfile.mkdtemp(prefix="c20_")
    SDIR = os.path.join(TMP, NEEDLE)
    os.makedirs(SDIR)
    files = {
        "inc.md": "FILESENT1 included *markdown* <x-sentinel-901 a=1>\n",
        "inc.txt": "FILESENT2 literal text\n",
        "inc.py": "FILESENT3 = 'code'\n",
        "data.csv": "FILESENT4,b\n1,2\n",
        "raw.html": "<p>FILESENT5 <x-sentinel-905></p>\n",
        "inc.rst": "FILESENT6 included *rst*\n",
        "data2.csv": "FILESENT7,b\n1,2\n",
        "raw2.html": "<p>FILESENT8</p>\n",
        "img.png": "FILESENT9 not really an image\n",
        "nested.md": "```{include} inc.txt\n:literal:\n```\n",
    }
    for k, v in files.items():
        with open(os.path.join(SDIR, k), "w", encoding="utf8") as f:
            f.write(v)
    AUDIT = mon.AuditLog(NEEDLE)
    global AUDIT_STD
    AUDIT_STD = mon.AuditLog("parsers/rst/include/isonum")
    AUDIT_STD.enabled = False
    mon.start_reach(ctx)


def teardown(ctx):
    mon.finish_reach(ctx, ANCHORS)
    shutil.rmtree(TMP, ignore_errors=True)


# construct table: name -> (lines builder(n), kind 'raw'|'file'|'both'|'none', file sentinel or None, raw expected to show markup when enabled)
def S(n):
    return f"<x-sentinel-{n} a=\"1\">"


D = NEEDLE


def constructs():
    return {
        "html1_script": (lambda n: [f"<script>{S(n)}", "</script>"], "raw", None),
        "html2_comment": (lambda n: [f"<!-- {S(n)} -->"], "raw", None),
        "html3_pi": (lambda n: [f"<?php {S(n)} ?>"], "raw", None),
        "html4_decl": (lambda n: [f"<!DECL x>{S(n)}"], "raw", None),
        "html5_cdata": (lambda n: [f"<![CDATA[ {S(n)} ]]>"], "raw", None),
        "html6_div": (lambda n: ["<div>", S(n), "</div>"], "raw", None),
        "html7_own_line": (lambda n: [S(n)], "raw", None),
        "inline": (lambda n: [f"text {S(n)} more text"], "raw", None),
        "raw_directive": (lambda n: ["```{raw} html", S(n), "```"], "raw", None),
        "raw_latex": (lambda n: ["```{raw} latex", f"\\sentinel{{{n}}}", "```"], "raw", None),
        "raw_file": (lambda n: ["```{raw} html", f":file: {D}/raw.html", "```"], "both", "FILESENT5"),
        "role_derived": (lambda n: [f"```{{role}} rawh{n}(raw)", ":format: html", "```", "", f"use {{rawh{n}}}`{S(n)}` here"], "raw", None),
        "evalrst_raw": (lambda n: ["```{eval-rst}", ".. raw:: html", "", f"   {S(n)}", "```"], "raw", None),
        "evalrst_role": (lambda n: ["```{eval-rst}", f".. role:: rr{n}(raw)", "   :format: html", "", f"text :rr{n}:`{S(n)}` text", "```"], "raw", None),
        "hardbreak": (lambda n: [f"hard{n}\\", "break"], "rawnode", None),
        "strike": (lambda n: [f"~~struck{n}~~"], "rawnode", None),
        "in_heading": (lambda n: [f"## Heading {S(n)} text"], "raw", None),
        "in_table": (lambda n: [f"| a | {S(n)} |", "|---|---|", f"| {S(n + 500)} | b |"], "raw", None),
        "in_footnote": (lambda n: [f"ref[^f{n}]", "", f"[^f{n}]: note {S(n)}"], "raw", None),
        "in_directive": (lambda n: ["````{note}", S(n), "", f"inline {S(n + 500)} too", "````"], "raw", None),
        "in_quote": (lambda n: [f"> quoted {S(n)}", ">", f"> {S(n + 500)}"], "raw", None),
        "in_list": (lambda n: [f"- item {S(n)}", "", f"  {S(n + 500)}"], "raw", None),
        "in_substitution": (lambda n: ["{{ rawsub }}", "", "inline {{ rawsub_inline }} x"], "raw", None),
        "in_div": (lambda n: [":::{tip}", S(n), ":::"], "raw", None),
        # directives that parse their text themselves (inline markup inside literal / titled / tabular structures)
        "in_parsed_literal": (lambda n: ["```{parsed-literal}", f"literal {S(n)} text", "```"], "raw", None),
        "in_topic": (lambda n: ["```{topic} Title " + S(n + 500), f"body {S(n)}", "```"], "raw", None),
        "in_sidebar": (lambda n: ["```{sidebar} Side title", f"body {S(n)}", "```"], "raw", None),
        "in_admonition_title": (lambda n: ["```{admonition} Title " + S(n), "body", "```"], "raw", None),
        "in_list_table": (lambda n: ["```{list-table}", "* - a", f"  - cell {S(n)}", "```"], "raw", None),
        "in_figure_caption": (lambda n: ["```{figure} " + f"{D}/img.png", "", f"caption {S(n)}", "", f"legend {S(n + 500)}", "```"], "raw", None),
        "in_rubric": (lambda n: ["```{rubric} Rubric " + S(n), "```"], "raw", None),
        "in_epigraph": (lambda n: ["```{epigraph}", f"quote {S(n)}", "", f"-- attribution {S(n + 500)}", "```"], "raw", None),
        "in_line_block": (lambda n: ["```{line-block}", f"line {S(n)}", "second", "```"], "raw", None),
        # nodes that are built outside the tree and inserted by a later docutils transform (substitution definitions)
        "evalrst_subst_ref_to_myst": (lambda n: ["```{eval-rst}", "rst text |rawsub| and |rawsub_inline| here", "```"], "none", None),
        "evalrst_subst_replace": (lambda n: ["```{eval-rst}", f".. |rp{n}| replace:: :raw-html-{n}:`{S(n)}`", "", f".. role:: raw-html-{n}(raw)", "   :format: html", "", f"use |rp{n}| here", "```"], "none", None),
        "in_deflist_like": (lambda n: ["```{glossary-like}", "```", "", f"para {S(n)}"], "raw", None),
        "include_md": (lambda n: ["```{include} " + f"{D}/inc.md", "```"], "both", "FILESENT1"),
        "include_literal": (lambda n: ["```{include} " + f"{D}/inc.txt", ":literal:", "```"], "file", "FILESENT2"),
        "include_code": (lambda n: ["```{include} " + f"{D}/inc.py", ":code: python", "```"], "file", "FILESENT3"),
        "include_nested": (lambda n: ["```{include} " + f"{D}/nested.md", "```"], "file", "FILESENT2"),
        # docutils' "standard include" spelling <...>: the data files shipped with docutils, or (absolute) any file
        "include_angle_std": (lambda n: ["```{include} <isonum.txt>", ":literal:", "```"], "file", "placed in the public domain"),
        "include_angle_abs": (lambda n: ["```{include} <" + os.path.join(SDIR, "inc.txt") + ">", ":literal:", "```"], "file", "FILESENT2"),
        "include_angle_md": (lambda n: ["```{include} <" + os.path.join(SDIR, "inc.rst") + ">", "```"], "file", "FILESENT6"),
        "evalrst_include_std": (lambda n: ["```{eval-rst}", ".. include:: <isonum.txt>", "   :literal:", "```"], "file", "placed in the public domain"),
        "csv_file": (lambda n: ["```{csv-table} T", f":file: {D}/data.csv", "```"], "file", "FILESENT4"),
        "evalrst_include": (lambda n: ["```{eval-rst}", f".. include:: {D}/inc.rst", "```"], "file", "FILESENT6"),
        "evalrst_csv": (lambda n: ["```{eval-rst}", ".. csv-table:: T", f"   :file: {D}/data2.csv", "```"], "file", "FILESENT7"),
        "evalrst_rawfile": (lambda n: ["```{eval-rst}", ".. raw:: html", f"   :file: {D}/raw2.html", "```"], "both", "FILESENT8"),
        "figure": (lambda n: ["```{figure} " + f"{D}/img.png", "caption", "```"], "noread", "FILESENT9"),
        "image": (lambda n: ["```{image} " + f"{D}/img.png", "```"], "noread", "FILESENT9"),
        "code_block": (lambda n: ["```{code-block} html", S(n), "```"], "none", None),
        "fence": (lambda n: ["```html", S(n), "```"], "none", None),
    }


EXT = ["strikethrough", "substitution", "colon_fence", "html_image"]


def build(case):
    C = constructs()
    lines = ["start paragraph", ""]
    used = []
    for i, (name, cont) in enumerate(case["items"]):
        n = 100 + i
        L = C[name][0](n)
        if cont == "quote" and not name.startswith(("html", "role_derived", "in_")):
            L = ["> " + l if l else ">" for l in L]
        elif cont == "list" and not name.startswith(("html", "role_derived", "in_")):
            L = [("- " if j == 0 else "  ") + l if l else "" for j, l in enumerate(L)]
        lines += L + [""]
        used.append((name, n))
    lines += ["ENDMARKER final paragraph", ""]
    return "\n".join(lines), used


def run_one(text, raw_on, file_on, suppress=(), spell="bool"):
    from docutils import nodes

    # docutils reads both switches by truth value (its defaults are the ints 1): 0 / 1 are as good as False / True
    if spell == "int":
        raw_on, file_on = int(raw_on), int(file_on)
    elif spell == "none-off":
        raw_on, file_on = (raw_on or None), (file_on or None)

    src = os.path.join(TMP, "doc.md")
    kw = dict(myst_enable_extensions=EXT, myst_substitutions={"rawsub": "<x-sentinel-777 a=\"1\">", "rawsub_inline": "<x-sentinel-778 a=\"1\">"}, raw_enabled=raw_on, file_insertion_enabled=file_on, doctitle_xform=False, myst_suppress_warnings=list(suppress))
    conf_env = None
    if spell.startswith("conf"):
        # the switches written in a docutils.conf (strings, converted by docutils with the option's validator), not passed as Python values
        _, section, k = spell.split(":")
        k = int(k)
        word = lambda on: (["yes", "true", "1", "on"] if on else ["no", "false", "0", "off"])[k % 4]  # noqa: E731
        path = os.path.join(TMP, f"docutils_{section.replace(' ', '_')}_{k}_{int(bool(raw_on))}{int(bool(file_on))}.conf")
        with open(path, "w") as f:
            f.write(f"[{section}]\nraw_enabled: {word(raw_on)}\nfile_insertion_enabled: {word(file_on)}\n")
        kw.pop("raw_enabled")
        kw.pop("file_insertion_enabled")
        conf_env = os.environ.get("DOCUTILSCONFIG")
        os.environ["DOCUTILSCONFIG"] = path
    AUDIT.clear()
    AUDIT_STD.clear()
    AUDIT.enabled = AUDIT_STD.enabled = True
    doc, w = drive.parse(text, source_path=src, **kw)
    opens_parse = [e for e in AUDIT.events + AUDIT_STD.events if e[0] == "open"]
    out, w2 = drive.to_html(text, source_path=src, **kw)
    opens_all = [e for e in AUDIT.events + AUDIT_STD.events if e[0] == "open"]
    AUDIT.enabled = AUDIT_STD.enabled = False
    if spell.startswith("conf"):
        if conf_env is None:
            os.environ.pop("DOCUTILSCONFIG", None)
        else:
            os.environ["DOCUTILSCONFIG"] = conf_env
    return doc, w, out, opens_parse, opens_all


def eval_case(ctx, case):
    from docutils import nodes

    if case.get("kind") == "rst_host":
        return eval_rst_host(ctx, case)
    if case.get("kind") == "renderer_api":
        return eval_renderer_api(ctx, case)
    C = constructs()
    text, used = build(case)
    res = {}
    for raw_on in (True, False):
        for file_on in (True, False):
            try:
                res[(raw_on, file_on)] = run_one(text, raw_on, file_on, case.get("suppress", ()), case.get("spell", "bool"))
            except Exception as e:  # noqa: BLE001
                sig = core.exc_signature(e)
                ctx.violation(f"raises:{sig['type']}:{sig['myst'] or sig['inner']}", f"raw_enabled={raw_on} file_insertion_enabled={file_on}: rendering raised {sig['type']}: {sig['msg']}", case, {"text": text, **sig})
                return False
    raw_constructs = [(nm, n) for nm, n in used if C[nm][1] in ("raw", "both", "rawnode")]
    file_constructs = [(nm, n) for nm, n in used if C[nm][1] in ("file", "both")]
    noread = [(nm, n) for nm, n in used if C[nm][1] == "noread"]
    # ---- positive control: with everything enabled the sentinels are really there
    doc, w, out, op, opa = res[(True, True)]
    nraw_all = sum(1 for _ in doc.findall(nodes.raw))
    for nm, n in raw_constructs:
        if C[nm][1] == "rawnode" or nm in ("raw_latex", "raw_file", "evalrst_rawfile", "include_md"):
            continue
        marker = "x-sentinel-777" if nm == "in_substitution" else f"x-sentinel-{n}"
        if f"<{marker}" in out:
            ctx.count("control:raw_sentinel_visible_when_enabled")
            ctx.count("control:construct:" + nm)
        else:
            ctx.count("control:raw_sentinel_not_visible:" + nm)
    for nm, n in file_constructs:
        if C[nm][2] in out or C[nm][2] in doc.astext():
            ctx.count("control:file_content_inserted_when_enabled")
            ctx.count("control:construct:" + nm)
        else:
            ctx.count("control:file_content_not_inserted:" + nm)
    if file_constructs and op:
        ctx.count("control:open_events_when_enabled", len(op))
    detail0 = {"text": text}
    # ---- raw disabled
    for file_on in (True, False):
        doc, w, out, op, opa = res[(False, file_on)]
        d = {**detail0, "raw_enabled": False, "file_insertion_enabled": file_on, "warnings": w[-1500:]}
        raws = list(doc.findall(nodes.raw))
        if raws:
            r = raws[0]
            origin = "hardbreak" if "<br" in r.astext() or r.get("format") == "latex" and "\\\\" in r.astext() else ("strikethrough" if r.astext() in ("<s>", "</s>") else "html")
            ctx.violation(f"raw-disabled:raw-node-survives:{origin}:{r.parent.tagname}", f"{len(raws)} raw node(s) in the doctree with raw_enabled=False, first: format={r.get('format')} text={r.astext()[:60]!r} under <{r.parent.tagname}>", case, d)
        m = re.search(r"<x-sentinel-\d+", out)
        if m:
            ctx.violation("raw-disabled:sentinel-markup-in-output", f"unescaped sentinel markup {m.group(0)!r} in the html5 output with raw_enabled=False", case, d)
        if "\\sentinel{" in out and "raw_latex" in [nm for nm, _ in used]:
            pass  # latex raw is dropped by the html writer anyway
        nref = len(re.findall(r"disabled|deactivated", w))
        need = sum(1 for nm, n in raw_constructs if not (file_on is False and C[nm][1] == "both"))
        if nref < len(raw_constructs) - sum(1 for nm, _ in raw_constructs if nm in ("include_md",)) * (0 if file_on else 1):
            ctx.violation("raw-disabled:refusal-not-reported", f"{nref} refusal warnings for {len(raw_constructs)} raw-carrying constructs", case, d)
        if "ENDMARKER" not in doc.astext() or "ENDMARKER" not in out:
            ctx.violation("raw-disabled:rest-of-document-lost", "the trailing marker paragraph is missing", case, d)
        ctx.count("raw_disabled_runs")
        ctx.count("raw_constructs_refused", len(raw_constructs))
    # ---- file insertion disabled
    for raw_on in (True, False):
        doc, w, out, op, opa = res[(raw_on, False)]
        d = {**detail0, "raw_enabled": raw_on, "file_insertion_enabled": False, "warnings": w[-1500:], "opens": opa[:5]}
        if opa:
            ctx.violation("file-disabled:file-opened", f"{len(opa)} open() of sentinel files with file_insertion_enabled=False, first: {opa[0][1]}", case, d)
        for k in range(1, 10):
            if f"FILESENT{k}" in out or f"FILESENT{k}" in doc.astext():
                ctx.violation("file-disabled:file-content-inserted", f"content of a sentinel file (FILESENT{k}) is in the document with file_insertion_enabled=False", case, d)
                break
        for nm, n in file_constructs:
            if C[nm][2] in out or C[nm][2] in doc.astext():
                ctx.violation("file-disabled:file-content-inserted", f"content of the file read by {nm} ({C[nm][2]!r}) is in the document with file_insertion_enabled=False", case, d)
                break
        nref = len(re.findall(r"disabled|deactivated", w))
        if nref < len(file_constructs):
            ctx.violation("file-disabled:refusal-not-reported", f"{nref} refusal warnings for {len(file_constructs)} file-reading constructs", case, d)
        if "ENDMARKER" not in doc.astext() or "ENDMARKER" not in out:
            ctx.violation("file-disabled:rest-of-document-lost", "the trailing marker paragraph is missing", case, d)
        ctx.count("file_disabled_runs")
        ctx.count("file_constructs_refused", len(file_constructs))
    # ---- figure / image must never read the file
    if noread and not file_constructs:
        for key, r in res.items():
            if r[3]:
                ctx.violation("noread:image-file-opened", f"an image/figure path was opened during parsing: {r[3][0][1]}", case, {**detail0, "settings": key})
                break
    return len(raw_constructs) + len(file_constructs) >= 2


def eval_rst_host(ctx, case):
    """The documented docutils route for Markdown fragments: a reStructuredText HOST document includes the Markdown file with
    ``:parser: myst_parser.docutils_``.  The host has no MyST processing of its own, so the fragment's parse alone must honour raw_enabled."""
    import io

    from docutils import nodes
    from docutils.core import publish_doctree, publish_string

    C = constructs()
    text, used = build(case)
    frag = os.path.join(TMP, "hostfrag.md")
    with open(frag, "w", encoding="utf8") as f:
        f.write(text)
    host = "Host title\n==========\n\nhost paragraph\n\n.. include:: hostfrag.md\n   :parser: myst_parser.docutils_\n\nHOSTEND paragraph\n"
    src = os.path.join(TMP, "host.rst")
    res = {}
    for raw_on in (True, False):
        ws = io.StringIO()
        kw = drive.overrides(ws, myst_enable_extensions=EXT, myst_substitutions={"rawsub": "<x-sentinel-777 a=\"1\">", "rawsub_inline": "<x-sentinel-778 a=\"1\">"}, raw_enabled=raw_on, file_insertion_enabled=True, doctitle_xform=False,
                             myst_suppress_warnings=list(case.get("suppress", ())))
        try:
            doc = publish_doctree(host, source_path=src, settings_overrides=kw)
            out = publish_string(host, source_path=src, writer_name="html5", settings_overrides={**kw, "embed_stylesheet": False})
        except Exception as e:  # noqa: BLE001
            sig = core.exc_signature(e)
            ctx.violation(f"rst-host:raises:{sig['type']}:{sig['myst'] or sig['inner']}", f"raw_enabled={raw_on}: an rST host including the Markdown fragment raised {sig['type']}: {sig['msg']}", case, {"text": text, **sig})
            return False
        res[raw_on] = (doc, ws.getvalue(), out if isinstance(out, str) else out.decode("utf8", "replace"))
    raw_constructs = [(nm, n) for nm, n in used if C[nm][1] in ("raw", "both", "rawnode")]
    doc, w, out = res[True]
    if "ENDMARKER" not in doc.astext():
        ctx.count("rst_host:fragment_not_included")
        return False
    vis = sum(1 for nm, n in raw_constructs if f"<x-sentinel-{n}" in out or (nm == "in_substitution" and "<x-sentinel-777" in out))
    ctx.count("rst_host:control:raw_sentinel_visible_when_enabled", vis)
    doc, w, out = res[False]
    d = {"text": text, "host": host, "warnings": w[-1500:]}
    raws = list(doc.findall(nodes.raw))
    if raws:
        r = raws[0]
        ctx.violation("rst-host:raw-disabled:raw-node-survives", f"{len(raws)} raw node(s) in the doctree of an rST host that includes the Markdown fragment, with raw_enabled=False; first: format={r.get('format')} text={r.astext()[:60]!r}", case, d)
    m = re.search(r"<x-sentinel-\d+", out)
    if m:
        ctx.violation("rst-host:raw-disabled:sentinel-markup-in-output", f"unescaped sentinel markup {m.group(0)!r} in the html5 output of the rST host with raw_enabled=False", case, d)
    nref = len(re.findall(r"disabled|deactivated", w))
    if nref < len(raw_constructs):
        ctx.violation("rst-host:raw-disabled:refusal-not-reported", f"{nref} refusal warnings for {len(raw_constructs)} raw-carrying constructs in the included fragment", case, d)
    if "ENDMARKER" not in doc.astext() or "HOSTEND" not in doc.astext():
        ctx.violation("rst-host:raw-disabled:rest-of-document-lost", "the trailing marker paragraphs are missing", case, d)
    ctx.count("rst_host_raw_disabled_runs")
    ctx.count("rst_host_raw_constructs_refused", len(raw_constructs))
    return True


def eval_renderer_api(ctx, case):
    """The public renderer API (create_md_parser(config, DocutilsRenderer) + options['document']) on a document whose settings switch file
    insertion off: the switch belongs to the document's settings, whichever entry point rendered it."""
    import io

    from docutils.frontend import get_default_settings
    from docutils.utils import new_document

    from myst_parser.config.main import MdParserConfig
    from myst_parser.mdit_to_docutils.base import DocutilsRenderer
    from myst_parser.parsers.docutils_ import Parser
    from myst_parser.parsers.mdit import create_md_parser

    C = constructs()
    text, used = build(case)
    file_constructs = [(nm, n) for nm, n in used if C[nm][1] in ("file", "both")]
    res = {}
    for file_on in (True, False):
        settings = get_default_settings(Parser)
        ws = io.StringIO()
        settings.warning_stream, settings.halt_level, settings.report_level = ws, 5, 2
        settings.file_insertion_enabled, settings.raw_enabled = file_on, True
        doc = new_document(os.path.join(TMP, "doc.md"), settings=settings)
        md = create_md_parser(MdParserConfig(enable_extensions=EXT, substitutions={"rawsub": "x", "rawsub_inline": "y"}), DocutilsRenderer)
        md.options["document"] = doc
        AUDIT.clear()
        AUDIT_STD.clear()
        AUDIT.enabled = AUDIT_STD.enabled = True
        try:
            md.render(text)
        except Exception as e:  # noqa: BLE001
            AUDIT.enabled = AUDIT_STD.enabled = False
            ctx.count("renderer_api:no_document:" + type(e).__name__)
            return False
        opens = [e for e in AUDIT.events + AUDIT_STD.events if e[0] == "open"]
        AUDIT.enabled = AUDIT_STD.enabled = False
        res[file_on] = (doc, ws.getvalue(), opens)
    doc, w, opens = res[True]
    ctx.count("renderer_api:control:file_content_inserted_when_enabled", sum(1 for nm, n in file_constructs if C[nm][2] in doc.astext()))
    doc, w, opens = res[False]
    d = {"text": text, "warnings": w[-1200:], "opens": opens[:5]}
    if opens:
        ctx.violation("renderer-api:file-disabled:file-opened", f"{len(opens)} open() of sentinel files through the renderer API with file_insertion_enabled=False on the document, first: {opens[0][1]}", case, d)
    for nm, n in file_constructs:
        if C[nm][2] in doc.astext():
            ctx.violation("renderer-api:file-disabled:file-content-inserted", f"content of the file read by {nm} ({C[nm][2]!r}) is in the document rendered through the renderer API with file_insertion_enabled=False", case, d)
            break
    ctx.count("renderer_api_file_disabled_runs")
    return True


def run_shard(ctx):
    R = ctx.rng
    names = sorted(constructs())
    quick = ctx.tier == "quick"
    # every construct alone (partitioned), then random combinations
    n = 0
    for i, nm in enumerate(names):
        for cont in ("top", "quote", "list"):
            if (i * 3 + n) % ctx.nshards != ctx.shard and False:
                continue
        if i % ctx.nshards == ctx.shard % len(names):
            for cont in ("top", "quote", "list"):
                case = {"kind": "single", "items": [[nm, cont]], "spell": ("bool", "int", "none-off", f"conf:general:{n}", f"conf:parsers:{n}", f"conf:myst parser:{n}")[n % 6]}
                eval_case(ctx, case)
                ctx.case(repr(case), True)
                n += 1
            eval_rst_host(ctx, {"kind": "rst_host", "items": [[nm, "top"]]})
            ctx.case(("rst_host", nm), True)
            eval_renderer_api(ctx, {"kind": "renderer_api", "items": [[nm, "top"]]})
            ctx.case(("renderer_api", nm), True)
    ctx.subrun("each_construct_alone", exhaustive=True, constructs=len(names) if ctx.shard == 0 else 0, cases=n)
    nr = 130 if quick else 6000
    for i in range(nr):
        items = [[R.choice(names), R.choice(["top", "top", "quote", "list"])] for _ in range(R.randint(2, 8))]
        case = {"kind": "combo", "items": items, "suppress": R.choice([[], [], ["myst"], ["myst.*"], ["myst.strikethrough", "docutils"], ["myst", "ref", "docutils.*"]]), "spell": R.choice(["bool", "bool", "int", "none-off", f"conf:{R.choice(['general', 'parsers', 'myst parser'])}:{R.randrange(4)}"])}
        nt = eval_case(ctx, case)
        ctx.case(repr(case), bool(nt))
        if i % 4 == 0:
            eval_rst_host(ctx, {"kind": "rst_host", "items": items, "suppress": case["suppress"]})
            ctx.case(("rst_host", repr(items)), True)
        if i % 4 == 2:
            eval_renderer_api(ctx, {"kind": "renderer_api", "items": items})
            ctx.case(("renderer_api", repr(items)), True)
        if i < 2:
            ctx.sample(case)
        if (i & 0x7) == 0 and ctx.out_of_time():
            break


def finalize(m, tier):
    c = m["counters"]
    for k, lo in (("raw_disabled_runs", 1500), ("file_disabled_runs", 1500), ("raw_constructs_refused", 3000), ("file_constructs_refused", 1000), ("control:raw_sentinel_visible_when_enabled", 1500), ("control:file_content_inserted_when_enabled", 500),
                  ("control:open_events_when_enabled", 500), ("rst_host_raw_disabled_runs", 200), ("rst_host:control:raw_sentinel_visible_when_enabled", 400)):
        if c.get(k, 0) < lo:
            m["inconclusive"].append(f"monitor observed only {c.get(k, 0)} '{k}' events (< {lo})")
    vac = [k for k in c if k.startswith(("control:raw_sentinel_not_visible:", "control:file_content_not_inserted:"))]
    seen = {k.split(":", 2)[2] for k in c if k.startswith("control:construct:")}
    never = sorted({k.split(":", 2)[2] for k in vac} - seen)
    if never:
        m["inconclusive"].append(f"constructs whose payload never showed up with everything enabled (vacuous): {never}")
    mon.require_reach(m, ANCHORS)
