"""C09 - local '#target' links resolve to the right node or warn exactly once.

The generator builds documents from a table of targets (block target, attribute id, directive :name:, heading slug) and a
table of links (explicit / empty text, autolink <project:#x>, <#a b> spelling, existing / missing / case-variant
fragments) placed at arbitrary nesting positions, and knows which node every link must hit.  After the transforms every
link's reference node is located through a marker and compared: refid in the ids of the expected node, explicit text
kept, empty text filled from the target's title or '#name', missing => exactly one [myst.xref_missing] at the link's line.
"""

from __future__ import annotations

import re

from .. import core, drive, mon
from .c10 import slug0, uniq

PROP = "C09"
RULE = (
    "documents with 1-7 targets of mixed kinds (block target before paragraph/heading, attrs id on paragraph/span/heading, "
    "directive :name: with and without title, heading slug incl. duplicate titles and slug/explicit collisions; at top level "
    "or inside quote/list/directive) and 1-10 links (4 spellings x existing/missing/case-variant x before/after the target x "
    "paragraph/quote/list/directive/table cell/footnote/heading position), heading_anchors 0-3; distinct by hash of the "
    "document; non-trivial = at least one resolvable and one link in total >= 2"
)
ASSUME = [
    "the name a target carries is its docutils-normalised name, so a case-variant fragment is expected to be missing",
    "the link's own line is the first line of its enclosing leaf block (markdown-it maps are per block); for table cells, footnote bodies and headings the warning line is compared with the reference node's line",
]
SHARDS = {"quick": 16, "thorough": 16}
BUDGET_S = {"quick": 45, "thorough": 900}
ANCHORS = ["ResolveAnchorIds.apply", "DocutilsRenderer.render_link_anchor", "DocutilsRenderer.render_myst_target", "DocutilsRenderer.copy_attributes", "DocutilsRenderer.generate_heading_target", "DocutilsRenderer.render_link_project"]

EXT = ["attrs_block", "attrs_inline", "colon_fence", "deflist"]
WORDS = ["alpha", "beta", "gamma", "delta", "omega"]


def setup(ctx):
    mon.start_reach(ctx)


def teardown(ctx):
    mon.finish_reach(ctx, ANCHORS)


def contain(kind, lines):
    if kind == "quote":
        return ["> " + l if l else ">" for l in lines], 0
    if kind == "list":
        return [("- " if i == 0 else "  ") + l if l else "" for i, l in enumerate(lines)], 0
    if kind == "note":
        return ["````{note}"] + lines + ["````"], 1
    if kind == "tip-colon":
        return ["::::{tip}"] + lines + ["::::"], 1
    return lines, 0


def build(case):
    """-> text, targets {name: {...}}, links [{...}], slug table."""
    blocks = []  # (lines, info or None)
    targets, links = {}, []
    heads = []  # (title, within depth?) in source order for the slug model
    depth = case["anchors"]
    n = 0
    items = case["items"]
    for it in items:
        n += 1
        k = it["k"]
        if k == "target":
            name, tk, cont = it.get("name"), it["tk"], it.get("cont", "top")
            mk = f"tm{n}"
            title = None
            nodekind = "paragraph"
            if tk == "block_para":
                L = [f"({name})=", f"{mk} para"]
            elif tk == "block_heading":
                title = f"Head {mk}"
                L = [f"({name})=", f"## {title}"]
                nodekind = "heading"
                heads.append((title, 2, cont))
            elif tk == "block_heading_html":
                # a title with inline HTML whose tags sit directly next to each other: the implicit text is the visible text
                title = f"Head x {mk} y"
                L = [f"({name})=", f"## Head <b><i>x</i></b> {mk} <kbd>y</kbd><!-- c -->"]
                nodekind = "heading"
                heads.append((title, 2, cont))
            elif tk == "attr_para":
                L = [f"{{#{name}}}", f"{mk} para"]
            elif tk == "attr_heading":
                title = f"Attr {mk}"
                L = [f"{{#{name}}}", f"### {title}"]
                nodekind = "heading"
                heads.append((title, 3, cont))
            elif tk == "attr_span":
                L = [f"before [span {mk}]{{#{name}}} after"]
                nodekind = "inline"
            elif tk == "dir_title":
                title = f"Adm {mk}"
                L = [f"```{{admonition}} {title}", f":name: {name}", "body", "```"]
                nodekind = "admonition"
            elif tk == "dir_plain":
                L = ["```{note}", f":name: {name}", f"{mk} body", "```"]
                nodekind = "admonition"
            elif tk == "attr_quote":
                # a container WITHOUT a title of its own that holds titled things: its implicit text is still '#name'
                L = [f"{{#{name}}}", f"> {mk} quoted", ">", f"> #### Nested head {mk}x", ">", f"> ```{{admonition}} Inner adm {mk}y", "> inner", "> ```"]
                nodekind = "quote"
                heads.append((f"Nested head {mk}x", 4, "quote"))
            elif tk == "dir_nested":
                L = ["~~~~~{note}", f":name: {name}", f"{mk} body", "", "~~~~{admonition} Inner title " + mk + "x", "inner", "~~~~", "", "~~~~{table} Caption " + mk + "y", "| a |", "|---|", "~~~~", "~~~~~"]
                nodekind = "admonition"
            elif tk == "slug":
                title = it["title"] + f" {mk}" if it.get("uniq") else it["title"]
                L = [f"{'#' * it['level']} {title}"]
                nodekind = "heading"
                heads.append((title, it["level"], cont))
            else:
                raise ValueError(tk)
            L, _ = contain(cont, L)
            blocks.append((L, None))
            if tk != "slug":
                targets[name] = {"marker": mk, "title": title, "nodekind": nodekind, "cont": cont, "tk": tk}
        elif k == "link":
            mk = f"lp{n}"
            frag = it["frag"]
            sp = it["spelling"]
            if sp == "text":
                md = f"[lt{n} *txt*](#{frag})" if " " not in frag else f"[lt{n} *txt*](<#{frag}>)"
            elif sp == "empty":
                md = f"[](#{frag})" if " " not in frag else f"[](<#{frag}>)"
            elif sp == "project":
                md = f"<project:#{frag}>" if " " not in frag else f"[](<project:#{frag}>)"
            elif sp == "project_text":
                md = f"[lt{n} *txt*](project:#{frag})" if " " not in frag else f"[lt{n} *txt*](<project:#{frag}>)"
            pos = it["pos"]
            line_rel = 0
            truth_line = True
            if pos == "table":
                L = [f"| {mk} {md} x |", "|---|"]
                truth_line = False
            elif pos == "footnote":
                L = [f"fr{n}[^f{n}]", "", f"[^f{n}]: {mk} {md} x"]
                truth_line = False
            elif pos == "heading":
                L = [f"#### H {mk} {md} x"]
                heads.append((None, 4, "top"))  # title computed from tokens is not modelled: depth <= 3 keeps it out of the slug table
                truth_line = False
            else:
                L = [f"{mk} {md} x"]
                L, line_rel = contain(pos, L)
            blocks.append((L, {"marker": mk, "frag": frag, "explicit": sp in ("text", "project_text"), "tmark": f"lt{n}", "line_rel": line_rel, "truth_line": truth_line, "pos": pos, "spelling": sp}))
        elif k == "filler":
            blocks.append(([f"filler {n} text"], None))
        elif k == "footnote_named":
            # a footnote whose label is the same word as an explicit target / a heading slug: the '#name' links keep their target
            blocks.append(([f"see the note[^{it['label']}] here", "", f"[^{it['label']}]: a footnote that shares its label with a target"], None))
    # assemble with line numbers
    lines = []
    for L, info in blocks:
        if info is not None:
            info["line"] = len(lines) + 1 + info["line_rel"]
            links.append(info)
        lines += L + [""]
    # slug table (documented rule, C10's model) for headings within depth, in source order
    slugs = {}
    within = [(i, t, lvl) for i, (t, lvl, c) in enumerate(heads) if t is not None and lvl <= depth]
    for (i, t, lvl), s in zip(within, uniq([slug0(t) for _, t, _ in within])):
        slugs[s] = i
    return "\n".join(lines) + "\n", targets, links, slugs, heads


def norm_name(x):
    """docutils' rule for names: case-insensitive, runs of white space are one blank."""
    return " ".join(x.lower().split())


def NORM_TARGETS(targets):
    return {norm_name(k): k for k in targets}


def eval_case(ctx, case):
    from docutils import nodes

    text, targets, links, slugs, heads = build(case)
    detail = {"text": text}
    front_end = case.get("front_end", "docutils")
    try:
        if front_end == "sphinx":
            b = drive.SphinxBuild({"index.md": text}, conf={"myst_enable_extensions": EXT, "myst_heading_anchors": case["anchors"], "keep_warnings": True,
                                                                # ignore patterns are matched IN FULL: none of these covers one of the generated missing targets ('missing-1', 'tgt99', 'nowhere', 'no such')
                                                                "nitpick_ignore_regex": [("myst", "missing"), ("myst", "tgt9"), ("my", "nowhere"), ("myst", "no"), ("myst", "nowhere-else")]}, builder="dummy")
            try:
                b.build()
                # the warning STREAM (what the user sees, after Sphinx' handler-level filters), not the raw log records
                recs = [r for r in b.stream_records() if r["type"] == "myst" and r["subtype"] == "xref_missing"]
                ctx.count("sphinx_stream_vs_records_equal" if len(recs) == len([r for r in b.records if r["type"] == "myst" and r["subtype"] == "xref_missing"]) else "sphinx_stream_vs_records_differ")
                doc = b.resolved("index")
                lines = []
                for r in recs:
                    m = re.search(r":(\d+)$", str(r["location"] or ""))
                    lines.append(f"index.md:{m.group(1) if m else ''}: (WARNING/2) {r['msg'].replace(' [myst.xref_missing]', '')} [myst.xref_missing]")
                wtext = "\n".join(lines)
            finally:
                b.close()
        else:
            doc, wtext = drive.parse(text, myst_enable_extensions=EXT, myst_heading_anchors=case["anchors"], doctitle_xform=False)
    except Exception as e:  # noqa: BLE001
        ctx.count("no_document:" + type(e).__name__)
        return False
    ctx.count("front_end:" + front_end)
    # index: marker word -> Text nodes
    index = {}
    for t in doc.findall(nodes.Text):
        for w in re.findall(r"\b(?:tm|lp|lt)\d+\b", str(t)):
            index.setdefault(w, []).append(t)

    def node_with(marker, want):
        for t in index.get(marker, []):
            p = t.parent
            if marker.startswith("tm"):
                # the target's marker also shows up inside links whose empty text was filled from the target's title
                q, in_ref = t.parent, False
                while q is not None:
                    in_ref = in_ref or isinstance(q, nodes.reference)
                    q = q.parent
                if in_ref:
                    continue
            while p is not None:
                if isinstance(p, want):
                    return p
                p = p.parent
        return None

    heading_nodes = [n for n in doc.findall(lambda n: isinstance(n, (nodes.section, nodes.rubric)))]
    warn_recs = [w for w in drive.split_warnings(wtext) if "[myst.xref_missing]" in w["msg"]]
    used_warn = set()
    resolved = missing = 0
    for lk in links:
        para = node_with(lk["marker"], (nodes.paragraph, nodes.title, nodes.rubric, nodes.entry))
        if para is None:
            ctx.violation("link:paragraph-lost", f"the paragraph of link {lk['marker']} is not in the doctree", case, detail)
            continue
        refs = [r for r in para.findall(nodes.reference)]
        d = {**detail, "link": lk, "paragraph": para.pformat()[:1500], "warnings": wtext[-800:]}
        if len(refs) != 1:
            ctx.violation("link:dropped" if not refs else "link:duplicated", f"link {lk['marker']} (#{lk['frag']}) produced {len(refs)} reference nodes", case, d)
            continue
        ref = refs[0]
        frag = lk["frag"]
        # expected resolution
        exp_node, exp_title, how = None, None, "missing"
        tkey = frag if frag in targets else NORM_TARGETS(targets).get(norm_name(frag))
        if tkey is not None:
            t = targets[tkey]
            how = "explicit"
            want = {"paragraph": (nodes.paragraph,), "heading": (nodes.section, nodes.rubric), "inline": (nodes.inline,), "admonition": (nodes.Admonition,), "quote": (nodes.block_quote,)}[t["nodekind"]]
            exp_node = node_with(t["marker"], want)
            if t["nodekind"] == "inline":
                # the innermost inline carrying the id
                for tt in index.get(t["marker"], []):
                    p = tt.parent
                    while p is not None and not (isinstance(p, nodes.inline) and p.get("ids")):
                        p = p.parent
                    if p is not None:
                        exp_node = p
            exp_title = t["title"]
        elif frag in slugs:
            how = "slug"
            hi = slugs[frag]
            title = heads[hi][0]
            # the hi-th heading in source order
            if len(heading_nodes) == len(heads):
                exp_node = heading_nodes[hi]
            exp_title = title.replace("`", "")
        text_children = [c for c in ref.children if not isinstance(c, nodes.system_message)]
        shown = "".join(c.astext() for c in text_children)
        if how == "missing" and front_end == "sphinx" and frag.lower() in slugs:
            ctx.count("sphinx_case_variant_not_judged")  # Sphinx labels are case-insensitive by Sphinx' own rule
            for i, w in enumerate(warn_recs):
                if repr(frag) in w["msg"] and i not in used_warn:
                    used_warn.add(i)
                    break
            continue
        if how == "missing":
            missing += 1
            ref_line = ref.line if ref.line is not None else (lk["line"] if lk["truth_line"] else None)
            ws = [i for i, w in enumerate(warn_recs) if repr(frag) in w["msg"] and i not in used_warn and (ref_line is None or w["line"] == ref_line)]
            if ref_line is None and len(ws) > 1:
                # several links to the same missing target: leave the warnings that carry another link's known line to that link
                claimed = {l2["line"] for l2 in links if l2 is not lk and l2["frag"] == frag and l2["truth_line"]}
                ws = [i for i in ws if warn_recs[i]["line"] not in claimed] or ws
            if not ws:
                ws = [i for i, w in enumerate(warn_recs) if repr(frag) in w["msg"] and i not in used_warn]
                if ws:
                    ctx.violation("missing:warning-line", f"xref_missing for #{frag} reports line {warn_recs[ws[0]]['line']}, the reference is on line {ref_line}", case, d)
                else:
                    ctx.violation("missing:no-warning", f"link to the missing target #{frag} produced no [myst.xref_missing] warning (refid={ref.get('refid')!r})", case, d)
            if ws:
                used_warn.add(ws[0])
                if lk["truth_line"] and warn_recs[ws[0]]["line"] != lk["line"]:
                    ctx.violation("missing:warning-line", f"xref_missing for #{frag} reports line {warn_recs[ws[0]]['line']}, the link is on line {lk['line']}", case, d)
            if lk["explicit"]:
                if lk["tmark"] not in shown or not list(ref.findall(nodes.emphasis)):
                    ctx.violation("missing:text-lost", f"explicit text of the unresolved link #{frag} was not kept: {shown!r}", case, d)
            continue
        resolved += 1
        if exp_node is None:
            ctx.count("expected_node_not_located")
            continue
        rid = ref.get("refid")
        if rid is None or rid not in exp_node.get("ids", []):
            owner = next((n for n in doc.findall(nodes.Element) if rid is not None and rid in n.get("ids", [])), None)
            if any(repr(frag) in w["msg"] for w in warn_recs):
                key = f"resolve:{how}:reported-missing"
            elif owner is not None:
                key = f"resolve:{how}:wrong-node"
            else:
                key = f"resolve:{how}:dangling"
            ctx.violation(key, f"link #{frag} ({how}) has refid {rid!r}; expected one of {exp_node.get('ids')} of <{exp_node.tagname}>" + (f"; it lands on <{owner.tagname}> {owner.astext()[:40]!r}" if owner is not None else ""), case, d)
            continue
        ctx.count(f"resolved:{how}:{lk['spelling']}:{lk['pos']}")
        if lk["explicit"]:
            if lk["tmark"] not in shown or not list(ref.findall(nodes.emphasis)):
                ctx.violation("text:explicit-lost", f"explicit link text not preserved: {shown!r}", case, d)
        else:
            want_text = exp_title if exp_title else "#" + frag
            if shown != want_text:
                ctx.violation(f"text:implicit:{how}", f"empty link to #{frag} shows {shown!r}, expected {want_text!r}", case, d)
    extra = [w for i, w in enumerate(warn_recs) if i not in used_warn]
    if extra:
        ctx.violation("warning:spurious-or-duplicate", f"{len(extra)} [myst.xref_missing] warnings beyond one per missing link: {extra[0]['msg'][:100]}", case, {**detail, "warnings": wtext[-800:]})
    ctx.count("links_resolved_expected", resolved)
    ctx.count("links_missing_expected", missing)
    ctx.count("docs_judged")
    return resolved >= 1 and len(links) >= 2


# ------------------------------------------------------------------------------------------- workload

TK = ["block_para", "block_heading", "block_heading_html", "attr_para", "attr_heading", "attr_span", "dir_title", "dir_plain", "slug", "attr_quote", "dir_nested"]
TITLES = ["Alpha Beta", "alpha beta", "Gamma", "Gamma", "Gamma 1", "gamma-1", "Delta!", "x `code` y", "Ünï cödé", "Straße", "Οδός Ερμής", "ﬁne ligature", "ÉCOLE Élan", "日本 語", "ǅungla"]  # lower-casing is not case-folding


def make_case(R):
    items = []
    names = []
    nt = R.randint(1, 7)
    slug_titles = []
    if R.random() < 0.2:
        # a cluster of duplicate titles plus a title whose own slug looks like a suffixed duplicate
        base = R.choice(["Gamma", "Rel ease", "x"])
        cluster = [base, base, base + " 1", R.choice([base, base + "-1", base + " 1"])]
        R.shuffle(cluster)
        for t in cluster:
            items.append({"k": "target", "tk": "slug", "title": t, "level": R.choice([1, 2, 2]), "cont": R.choice(["top", "top", "quote"]), "uniq": False})
            slug_titles.append(t)
    for i in range(nt):
        tk = R.choice(TK)
        cont = R.choice(["top", "top", "top", "quote", "list", "note", "tip-colon"])
        if tk == "slug":
            title = R.choice(TITLES)
            it = {"k": "target", "tk": "slug", "title": title, "level": R.choice([1, 2, 2, 3]), "cont": cont if cont in ("top", "quote", "list") else "top", "uniq": R.random() < 0.3}
            slug_titles.append(title)
        else:
            if slug_titles and R.random() < 0.25:
                name = slug0(R.choice(slug_titles))  # explicit name colliding with a heading slug
            else:
                name = R.choice(["tgt", "my-target", "a_b", "ünï", "x", "Install-Guide", "My_Target", "UPPER", "Ünï-Cödé"] + (["t.x", "sec 1", "a:b"] if tk in ("block_para", "block_heading", "block_heading_html", "dir_title", "dir_plain", "dir_nested") else [])) + str(i)
            if name.lower() in [x.lower() for x in names] or not name:
                name = f"n{i}"
            names.append(name)
            if tk in ("block_heading", "attr_heading") and cont in ("note", "tip-colon") and False:
                cont = "top"
            it = {"k": "target", "tk": tk, "name": name, "cont": cont}
        items.append(it)
    if R.random() < 0.4:
        R.shuffle(items)  # an explicit name may come BEFORE the heading whose slug it equals
    # links
    frs = list(names)
    from_slugs = []
    # slugs as they will be (model): computed later; offer the base slugs and suffixed forms
    for t in slug_titles:
        from_slugs += [slug0(t), slug0(t) + "-1", slug0(t) + "-2", slug0(t) + "-1-1"]
    nl = R.randint(1, 10)
    for j in range(nl):
        x = R.random()
        if x < 0.45 and frs:
            frag = R.choice(frs)
        elif x < 0.7 and from_slugs:
            frag = R.choice(from_slugs)
        elif x < 0.85 and frs:
            f0 = R.choice(frs)
            frag = R.choice([f0.upper(), f0.lower(), f0.swapcase()])
            if frag == f0:
                frag = f0 + "x"
        else:
            frag = R.choice(["nowhere", "nowhere", "missing-1", "no such", "tgt99"])  # repeated on purpose: every link to the same missing name warns
        it = {"k": "link", "frag": frag, "spelling": R.choice(["text", "empty", "empty", "project", "project_text"]), "pos": R.choice(["top", "top", "quote", "list", "note", "tip-colon", "table", "footnote", "heading"])}
        items.insert(R.randint(0, len(items)), it)
    for _ in range(R.randint(0, 2)):
        items.insert(R.randint(0, len(items)), {"k": "filler"})
    simple = [nm for nm in names if re.fullmatch(r"[A-Za-z0-9_-]+", nm)]
    if simple and R.random() < 0.3:
        # placed AFTER the targets (the other order is a duplicate-name situation of its own)
        last_t = max(i for i, it in enumerate(items) if it["k"] == "target")
        items.insert(R.randint(last_t + 1, len(items)), {"k": "footnote_named", "label": R.choice(simple)})
    return {"kind": "doc", "items": items, "anchors": R.choice([0, 1, 2, 3, 3, 3])}


def run_shard(ctx):
    R = ctx.rng
    n = 2500 if ctx.tier == "quick" else 100000
    for i in range(25 if ctx.tier == "quick" else 1500):
        case = make_case(R)
        case["front_end"] = "sphinx"
        nt = eval_case(ctx, case)
        ctx.case(repr(case), bool(nt))
        if i == 0:
            ctx.sample(case)
        if ctx.time_left() < ctx.budget_s * 0.7:
            break
    for i in range(n):
        case = make_case(R)
        nt = eval_case(ctx, case)
        ctx.case(repr(case), bool(nt))
        if i < 2:
            ctx.sample(case)
        if (i & 0x1F) == 0 and ctx.out_of_time():
            break


def finalize(m, tier):
    c = m["counters"]
    for k, lo in (("docs_judged", 5000), ("links_resolved_expected", 8000), ("links_missing_expected", 5000)):
        if c.get(k, 0) < lo:
            m["inconclusive"].append(f"monitor observed only {c.get(k, 0)} '{k}' events (< {lo})")
    for how in ("explicit", "slug"):
        n = sum(v for k, v in c.items() if k.startswith(f"resolved:{how}:"))
        if n < 1000:
            m["inconclusive"].append(f"only {n} links verified as resolved through {how} targets")
    if c.get("expected_node_not_located", 0) > 0.05 * max(1, c.get("links_resolved_expected", 0)):
        m["inconclusive"].append("the expected target node could not be located for > 5% of resolvable links")
    mon.require_reach(m, ANCHORS)
