"""C06 - nested parsing is transparent: directive bodies, fences, include, substitution.

Metamorphic monitor over pairs of executions of the real code: render(W(X)) restricted to the wrapper's node must equal
render(X) (pformat with line/source masked; system_message nodes are compared in place by level and text, and the warning stream
as a multiset of warning texts).
Wrappers: admonition-type directives (both fence kinds, both option styles, any fence length, nested 1-4 deep, inside
quotes/lists), include of a file containing X, substitution whose value is X (block and inline position).  Second
oracle: definitions made inside the wrapper (reference definition, footnote, target) must be usable from outside.
"""

from __future__ import annotations

import os
import random
import re
import shutil
import tempfile

from .. import core, drive, mon
from ..gen import doc as G

PROP = "C06"
RULE = (
    "pairs (body X, wrapper W): X from the heading-free CommonMark spec examples and from the marker grammar (static and "
    "dynamic blocks, no headings); W from {note/tip/admonition-with-title/container x backtick/tilde/colon fence x {no "
    "options, ':k: v', '---' block} x 0-2 blank lines x extra fence length x nesting depth 1-4 x optional outer quote/list, "
    "include (with/without final newline), block substitution, inline substitution}; cross-boundary cases define a "
    "reference definition + footnote + target inside W and use them outside; distinct by hash of (X, W); non-trivial = X "
    "has >= 2 block nodes or one container"
)
ASSUME = [
    "compared directly after Parser.parse (before transforms), where the nodes a nested parse produced are still where it put them",
    "X contains no headings (C05) and does not begin with an option-like line (':' or '---'), which the directive syntax reads as options by specification",
    "substitution bodies contain no Jinja syntax ('{{', '{%', '{#')",
    "line/source attributes are masked (C04)",
]
SHARDS = {"quick": 16, "thorough": 16}
BUDGET_S = {"quick": 45, "thorough": 900}
ANCHORS = ["DocutilsRenderer.render_fence", "DocutilsRenderer.render_colon_fence", "DocutilsRenderer.run_directive", "MockState.nested_parse", "DocutilsRenderer.nested_render_text", "MockIncludeDirective.run", "DocutilsRenderer.render_substitution"]

TMP = None
SPEC = []
EXT = ["colon_fence", "deflist", "fieldlist", "dollarmath", "amsmath", "attrs_block", "attrs_inline", "tasklist", "strikethrough", "substitution", "html_image", "html_admonition", "replacements", "smartquotes"]


def setup(ctx):
    global TMP, SPEC
    TMP = tempfile.mkdtemp(prefix="c06_")
    for ex in G.spec_examples(core.REPO):
        md = ex["markdown"]
        if re.search(r"^ {0,3}#{1,6}(\s|$)", md, re.M) or re.search(r"^ {0,3}(=+|-+)\s*$", md, re.M):
            continue  # headings / setext underlines / '---'
        if md.lstrip("\n").startswith((":", "---")) or "\t" in md.split("\n")[0][:1]:
            continue
        SPEC.append(md)
    # files for bodies that are themselves includes: with YAML front matter (dropped by the include), without, and one that includes the first
    with open(os.path.join(TMP, "fmfile.md"), "w", encoding="utf8") as f:
        f.write("---\norphan: true\ntitle: from the front matter\n---\n\nincluded *text* of fmfile\n\n- item of fmfile\n")
    with open(os.path.join(TMP, "plainfile.md"), "w", encoding="utf8") as f:
        f.write("included *text* of plainfile\n\n> quote of plainfile\n")
    with open(os.path.join(TMP, "outerfile.md"), "w", encoding="utf8") as f:
        f.write("---\nk: v\n---\nouter text\n\n```{include} fmfile.md\n```\n")
    mon.start_reach(ctx)


def teardown(ctx):
    mon.finish_reach(ctx, ANCHORS)
    shutil.rmtree(TMP, ignore_errors=True)


# ------------------------------------------------------------------------------------------- wrappers


def fence_len(lines, ch):
    n = 2
    for l in lines:
        for m in re.finditer(re.escape(ch) + "+", l):
            n = max(n, len(m.group(0)))
    return n + 1


NOARG = ("note", "tip", "warning", "important")
FIRSTLINE_OK = re.compile(r"[A-Za-z0-9\\\\&(]|\*\S|_\S")
FIRSTLINE_BAD = re.compile(r"\[[^\]]*\]:|(\*|_|-){3,}\s*$|[*+-]\s|\d+[.)]\s")


def wrap_directive(lines, layer):
    name, ch, style, nblank, extra, tail = layer[:6]
    firstline = len(layer) > 6 and layer[6]
    n = fence_len(lines, ch) + extra
    if (firstline and name in NOARG and style == "none" and lines and FIRSTLINE_OK.match(lines[0]) and not FIRSTLINE_BAD.match(lines[0]) and not (ch == "`" and "`" in lines[0])
            and lines[0] == lines[0].strip() and not (len(lines) > 1 and (re.match(r"\s*(=+|-+)\s*$", lines[1]) or lines[1].lstrip().startswith((":", "---"))))):  # a second line starting with ':' / '---' is an option block by definition
        # a directive without arguments: the text after its name on the opening line is the first line of the body
        return [ch * n + "{" + name + "} " + lines[0]] + lines[1:] + [""] * tail + [ch * n]
    first = "{" + name + "}" + (" A *title*" if name == "admonition" else (" cls1 cls2" if name == "container" else ""))
    head = []
    opt = f"name: nm-{len(lines)}-{n}" if name == "container" else "class: c1"
    if style == "colon":
        head = [":" + opt]
    elif style == "dash":
        head = ["---", opt, "---"]
    b = nblank
    if b == 0 and lines and (lines[0].lstrip().startswith(":") and not (ch == ":" and style == "none" and lines[0].startswith(":::"))):
        b = 1
    if b == 0 and style == "none" and lines and lines[0].strip().startswith("---"):
        b = 1
    if b == 0 and lines and not lines[0].strip():
        b = 1  # the directive strips exactly one leading blank line
    return [ch * n + first] + head + [""] * b + lines + [""] * tail + [ch * n]


def wrap_outer(lines, kind):
    if kind == "quote":
        return ["> " + l if l else ">" for l in lines]
    if kind == "list":
        return [("- " if i == 0 else "  ") + l if l else "" for i, l in enumerate(lines)]
    return lines


def descend(doc, case):
    """The node whose children correspond to X's top-level children."""
    from docutils import nodes

    node = doc
    for o in case.get("outer", []):
        kids = [c for c in node.children if not isinstance(c, nodes.system_message)]
        if not kids:
            return None
        node = kids[0]
        if o == "list":
            node = node[0] if len(node) else None
        if node is None:
            return None
    for layer in case["layers"]:
        kids = [c for c in node.children if not isinstance(c, (nodes.system_message, nodes.title))]
        if len(kids) < 1 or not isinstance(kids[0], (nodes.Admonition, nodes.container)):
            return None
        node = kids[0]
    return node


def canon(children):
    from docutils import nodes

    out = []
    for c in children:
        if isinstance(c, nodes.title):
            continue
        if isinstance(c, nodes.system_message) and "Duplicate reference definition" in c.astext():
            continue  # reported once for the whole document when its rendering ends (after the last block, wrapped or not): not a node of X's place
        if isinstance(c, nodes.system_message):
            out.append("MESSAGE " + str(c.get("type")) + " " + re.sub(r"\s+", " ", c[0].astext() if len(c) else "") + "\n")
            continue
        c = c.deepcopy()
        drive.mask_lines(c) if isinstance(c, nodes.Element) else None
        if isinstance(c, nodes.Element):
            for sm in list(c.findall(nodes.system_message)):
                # a message node stays where the renderer put it: keep its place, level and text (ids / backrefs / lines are bookkeeping)
                stub = nodes.comment("", "MESSAGE " + str(sm.get("type")) + " " + re.sub(r"\s+", " ", sm[0].astext() if len(sm) else ""))
                sm.parent.replace(sm, stub)
            for e in list(c.findall(nodes.Element)):
                merged = []
                for ch in e.children:
                    if isinstance(ch, nodes.Text) and merged and isinstance(merged[-1], nodes.Text):
                        merged[-1] = nodes.Text(str(merged[-1]) + str(ch))
                    else:
                        merged.append(ch)
                if len(merged) != len(e.children):
                    e.children = []
                    e.extend(merged)
        out.append(c.pformat() if isinstance(c, nodes.Element) else repr(str(c)))
    return "".join(out)


def warn_texts(wtext):
    return sorted(re.sub(r"\s+", " ", w["msg"]) for w in drive.split_warnings(wtext))


def render(text, src, **kw):
    cfg = {"myst_enable_extensions": list(EXT), "report_level": 2}
    cfg.update(kw)
    return drive.parse_pre(text, source_path=src, **cfg)


def body_lines(case):
    if case["src"] == "none":
        return ["x"]
    if case["src"] == "lines":
        return list(case["lines"])
    if case["src"] == "spec":
        return SPEC[case["idx"] % len(SPEC)].rstrip("\n").split("\n")
    g = G.Gen(random.Random(case["seed"]), blocks=case.get("blocks") or BLOCKS, inlines=case.get("inlines"), max_depth=3, heading_in_container=False, hr_in_container=True, exotic=case["seed"] % 3 == 0)
    frag = g.blocks_seq(0, 1, 3, top=False)
    return list(frag.lines)


BLOCKS = ["para", "para", "bullet", "ordered", "quote", "hr", "icode", "fence", "fence_lang", "html", "table", "target", "comment", "blockbreak", "mathblock", "deflist", "fieldlist", "footdef", "tasklist",
          "attrs_para", "div", "directive", "colon_directive", "code_directive", "unknown_directive", "titled_directive", "titled_directive"]
NOJINJA_BLOCKS = [b for b in BLOCKS if b not in ("attrs_para", "div", "subst_block")]
NOJINJA_INLINES = ["em", "strong", "code", "url", "auto", "image", "hard", "soft", "math", "strike", "fnref", "html_inline", "entity", "escape", "role", "unknown_role", "anchor", "intlink"]


def eval_pair(ctx, case):
    from docutils import nodes

    src = os.path.join(TMP, "doc.md")
    X = body_lines(case)
    if not any(l.strip() for l in X):
        return False
    xtext = "\n".join(X) + "\n"
    kind = case["kind"]
    detail = {"X": xtext}
    try:
        subs = None
        if kind == "directive":
            lines = X
            for layer in reversed(case["layers"]):
                if case["src"] == "spec":
                    layer = layer[:5] + [0]  # an unclosed fence in X would swallow a blank line added before the closing fence
                lines = wrap_directive(lines, layer)
            for o in reversed(case.get("outer", [])):
                lines = wrap_outer(lines, o)
            wtext_src = "\n".join(lines) + "\n"
        elif kind == "include":
            sl = case.get("slice")
            ftext, opts = xtext if case.get("final_nl", True) else xtext.rstrip("\n"), []
            if sl and any(mk in xtext for mk in ("SLICE-BEGIN", "SLICE-END")):
                sl = None
            if sl:
                # X must be a closed piece of text (an unclosed fence / html block would swallow whatever the cut leaves around it)
                try:
                    if canon(render("\n" + xtext + "\n", src)[0].children) != canon(render(xtext, src)[0].children):
                        sl = None
                        ctx.count("include_slices:not-applicable-open-construct")
                except Exception:  # noqa: BLE001
                    sl = None
            if sl == "regions":
                # a file divided into regions that all end with the same marker: the selected region is the SECOND one (the end marker also occurs before the start marker)
                ftext = "first region, not wanted\n\n<!-- SLICE-END -->\n\nbetween\n\n<!-- SLICE-BEGIN -->\n" + xtext + "<!-- SLICE-END -->\n\ntail, not wanted\n\n<!-- SLICE-END -->\n"
                opts = [":start-after: <!-- SLICE-BEGIN -->", ":end-before: <!-- SLICE-END -->"]
            elif sl == "after":
                ftext = "not wanted\n\n<!-- SLICE-BEGIN -->\n" + xtext
                opts = [":start-after: <!-- SLICE-BEGIN -->"]
            elif sl == "before":
                ftext = xtext + "<!-- SLICE-END -->\n\nnot wanted <!-- SLICE-END -->\n"
                opts = [":end-before: <!-- SLICE-END -->"]
            elif sl == "lines":
                nx = xtext.count("\n")
                ftext = "junk 1\n\njunk 2\n\n" + xtext + "\ntail junk\n"
                opts = [":start-line: 4", f":end-line: {4 + nx}"]
            if sl:
                ctx.count("include_slices:" + sl)
            with open(os.path.join(TMP, "inc.md"), "w", encoding="utf8", newline="") as f:
                f.write(ftext)
            wtext_src = "```{include} inc.md\n" + "".join(o + "\n" for o in opts) + "```\n"
        elif kind == "subst_block":
            if any(t in xtext for t in ("{{", "{%", "{#", "}}")):
                return False
            subs = {"key": xtext.rstrip("\n")}
            wtext_src = "{{ key }}\n"
        elif kind == "subst_inline":
            inl = case["inline"]
            if any(t in inl for t in ("{{", "{%", "{#", "}}")):
                return False
            subs = {"key": inl}
            wtext_src = "before {{ key }} after\n"
            xtext = f"before {inl} after\n"
            detail["X"] = xtext
        else:
            raise ValueError(kind)
        detail["W(X)"] = wtext_src
        kw = {"myst_substitutions": subs} if subs is not None else {}
        dx, wx = render(xtext, src, **kw)
        dw, ww = render(wtext_src, src, **kw)
    except Exception as e:  # noqa: BLE001
        ctx.count("no_document:" + type(e).__name__)
        return False
    if kind == "directive":
        node = descend(dw, case)
        if node is None:
            ctx.count("wrapper_not_found")
            return False
        got = canon(node.children)
    else:
        got = canon(dw.children)
    exp = canon(dx.children)
    nblocks = sum(1 for c in dx.children if not isinstance(c, nodes.system_message))
    nontrivial = nblocks >= 2 or any(isinstance(c, (nodes.bullet_list, nodes.enumerated_list, nodes.block_quote, nodes.Admonition, nodes.table, nodes.definition_list)) for c in dx.children)
    if got != exp:
        key = f"nodes-differ:{kind}" + (":" + ("colon" if case["layers"][-1][1] == ":" else "tick") if kind == "directive" else "")
        ctx.violation(key, f"the nodes produced inside the {kind} wrapper differ from those of the same Markdown at top level", case, {**detail, "expected": exp[:3000], "got": got[:3000]})
    else:
        ctx.count("pairs_equal:" + kind)
    a, b = warn_texts(wx), warn_texts(ww)
    if a != b:
        # warnings of the wrapper itself (none are expected for these wrappers)
        ctx.violation(f"warnings-differ:{kind}", f"warnings differ: top level {a[:3]}, wrapped {b[:3]}", case, {**detail, "top": a, "wrapped": b})
    ctx.count("pairs_compared")
    return nontrivial


# ------------------------------------------------------------------------------------------- cross-boundary usability

DEFS = ["[rd]: https://example.com/rd \"T\"", "", "(tg)=", "para with target", "", "[^fn]: footnote text", "", "{#aid}", "attr para"]
USES = {"refdef": "[txt][rd]", "footnote": "x[^fn]", "target": "[](#tg)", "attrid": "[t](#aid)"}


def eval_cross(ctx, case):
    """Definitions inside the wrapper, uses outside (before / after / in a later directive body)."""
    from docutils import nodes

    src = os.path.join(TMP, "doc.md")
    use = " ".join(USES[u] for u in case["uses"])
    where = case["where"]
    inner = list(DEFS)
    if case["wrapper"] == "include":
        with open(os.path.join(TMP, "incx.md"), "w", encoding="utf8") as f:
            f.write("\n".join(inner) + "\n")
        W = ["```{include} incx.md", "```"]
        subs = None
    elif case["wrapper"] == "subst":
        inner = [l for l in inner if "{#" not in l and l != "attr para"]
        subs = {"key": "\n".join(inner)}
        W = ["{{ key }}"]
    else:
        W = wrap_directive(inner, case["layer"])
        subs = None
    useblock = ["use: " + use] if where != "later-directive" else ["```{tip}", "use: " + use, "```"]
    if where == "before":
        wrapped = useblock + [""] + W
        inplace = useblock + [""] + inner
    else:
        wrapped = W + [""] + useblock
        inplace = inner + [""] + useblock
    kw = {"myst_enable_extensions": list(EXT), "doctitle_xform": False}
    if subs is not None:
        kw["myst_substitutions"] = subs
    try:
        dw, ww = drive.parse("\n".join(wrapped) + "\n", source_path=src, **kw)
        dx, wx = drive.parse("\n".join(inplace) + "\n", source_path=src, **kw)
    except Exception as e:  # noqa: BLE001
        ctx.count("no_document:" + type(e).__name__)
        return

    def use_para(doc):
        for p in doc.findall(nodes.paragraph):
            if p.astext().startswith("use:"):
                q = p.deepcopy()
                drive.mask_lines(q)
                return q.pformat()
        return None

    a, b = use_para(dx), use_para(dw)
    detail = {"wrapped": "\n".join(wrapped), "in_place": "\n".join(inplace), "use_in_place": a, "use_wrapped": b, "warnings_wrapped": ww}
    ctx.count("cross_compared")
    if a != b:
        # which of the uses differ?  re-run each use alone would multiply cost; classify by the use kinds present
        kinds = "+".join(sorted(case["uses"]))
        outer_use = where in ("before", "after")
        if case["uses"] == ["refdef"] and outer_use:
            ctx.violation("cross:refdef-inside-nested-text-not-visible-outside", "a Markdown reference definition made inside nested-rendered text is not usable from text outside it", case, detail)
        else:
            ctx.violation(f"cross:{case['wrapper'] if case['wrapper'] in ('include', 'subst') else 'directive'}:{kinds}:{where}", "definitions made inside the wrapper are not usable from outside as they are when written in place", case, detail)
    else:
        ctx.count("cross_equal")


def eval_repeat(ctx, case):
    """The same nested text rendered twice, with the definitions it needs made (in another nested text) in between: the second rendering
    must not depend on the first one having happened - compared with a document whose first block differs by one word."""
    from docutils import nodes

    src = os.path.join(TMP, "doc.md")
    use = "use: " + " ".join(USES[u] for u in case["uses"])
    defs = [l for l in DEFS if "{#" not in l and l != "attr para"]
    kw = {"myst_enable_extensions": list(EXT), "doctitle_xform": False}

    def wrap(lines, slot):
        w = case["wrapper"]
        if w == "include":
            fn = f"rep{slot}.md"
            with open(os.path.join(TMP, fn), "w", encoding="utf8") as f:
                f.write("\n".join(lines) + "\n")
            return ["```{include} " + fn, "```"]
        if w == "subst":
            kw.setdefault("myst_substitutions", {})[f"k{slot}"] = "\n".join(lines)
            return ["{{ k" + str(slot) + " }}"]
        return wrap_directive(lines, case["layer"])

    def build(first):
        kw.pop("myst_substitutions", None)
        # slot names: identical text gets the identical wrapper (same file / same substitution key), as a user would write it
        a = wrap([first], "A" if first == use else "B")
        d = wrap(defs, "D")
        c = wrap([use], "A")
        return "\n".join(a + [""] + d + [""] + c) + "\n"

    def last_use(doc):
        found = None
        for p in doc.findall(nodes.paragraph):
            if p.astext().startswith("use:"):
                found = p
        if found is None:
            return None
        q = found.deepcopy()
        drive.mask_lines(q)
        return q.pformat()

    try:
        t1 = build(use)
        d1, w1 = drive.parse(t1, source_path=src, **dict(kw))
        t2 = build(use + " changed")
        d2, w2 = drive.parse(t2, source_path=src, **dict(kw))
    except Exception as e:  # noqa: BLE001
        ctx.count("no_document:" + type(e).__name__)
        return
    a, b = last_use(d1), last_use(d2)
    ctx.count("repeat_compared")
    if a is None or b is None:
        ctx.count("wrapper_not_found")
        return
    if a != b:
        ctx.violation(f"repeat:{case['wrapper'] if case['wrapper'] in ('include', 'subst') else 'directive'}:second-rendering-depends-on-first", "the same nested text renders differently the second time, depending on whether the identical text was "
                      "rendered earlier in the document", case, {"doc_repeated": t1, "doc_first_block_changed": t2, "last_use_repeated": a, "last_use_other": b})
    else:
        ctx.count("repeat_equal")
        if "<reference" in a or "<footnote_reference" in a:
            ctx.count("repeat_equal_and_resolved")


def eval_include_twice(ctx, case):
    """The same file included several times in one document, its path spelled in a non-canonical way: every inclusion yields the file's nodes."""
    spelled = case["path"].replace("TMPBASE", os.path.basename(TMP))
    os.makedirs(os.path.join(TMP, "sub"), exist_ok=True)
    with open(os.path.join(TMP, "plainfile.md"), encoding="utf8") as f:
        text = f.read()
    inc = f"```{{include}} {spelled}\n```\n"
    a = inc + "\npara between\n\n" + inc + "\n::::{note}\n" + inc + "::::\n\n" + inc
    b = text + "\npara between\n\n" + text + "\n::::{note}\n" + text + "::::\n\n" + text
    src = os.path.join(TMP, "doc.md")
    try:
        da, wa = render(a, src)
        db, wb = render(b, src)
    except Exception as e:  # noqa: BLE001
        ctx.count("no_document:" + type(e).__name__)
        return False
    ctx.count("include_twice_compared")
    if canon(da.children) != canon(db.children) or warn_texts(wa) != warn_texts(wb):
        ctx.violation("nodes-differ:include:same-file-again", f"including {spelled!r} four times does not give the file's nodes four times", case, {"W(X)": a, "X": b, "got": canon(da.children)[:2000], "expected": canon(db.children)[:2000], "warnings": wa[-600:]})
    return True


INCLUDE_BODIES = [["```{include} fmfile.md", "```"], ["~~~{include} fmfile.md", "~~~"], ["before", "", "```{include} fmfile.md", "```", "", "after"], ["```{include} plainfile.md", "```"], ["```{include} outerfile.md", "```"],
                  ["```{include} fmfile.md", ":start-line: 0", "```"], ["- item", "", "  ```{include} fmfile.md", "  ```"], ["> ```{include} fmfile.md", "> ```"]]


def eval_case(ctx, case):
    if case.get("kind") == "include_twice":
        return eval_include_twice(ctx, case)
    if case["kind"] == "repeat":
        eval_repeat(ctx, case)
        return True
    if case["kind"] == "cross":
        eval_cross(ctx, case)
        return True
    return eval_pair(ctx, case)


# ------------------------------------------------------------------------------------------- workload

NAMES = ["note", "tip", "admonition", "container", "warning", "important"]
INLINES = ["*em* and **strong**", "`code`", "[link](https://e.org)", "![img](i.png)", "a <b>b</b> c", "x $m^2$ y", "~~gone~~", "{emphasis}`role`", "{nosuchrole}`x`", "[](#nowhere)", "a\\\nb", "&amp; &copy;",
           "[t]{.cls}", "x[^zz]", "<https://auto.link>", "plain", "- not a list", "> not a quote", "# not a heading"]


FIRSTLINES = ["\\*x\\* and \\[a\\](b)", "&lt;b&gt; &amp;amp; &#42;y&#42;", "\\{\\{ key \\}\\} text", "plain *em* text", "a \\\\ b \\_c\\_", "x &copy; y &nosuch; z", "(paren) \\# not heading", "5 \\> 3 &gt; 1", "url <https://e.org> x",
              "text with trailing backslash\\", "*em* **strong** [l](https://e.org \"t\")"]


def rand_layer(R):
    ch = R.choice(["`", "`", "~", ":", ":"])
    return [R.choice(NAMES), ch, R.choice(["none", "none", "colon", "dash"]), R.choice([0, 0, 1, 2]), R.choice([0, 0, 1, 3]), R.choice([0, 0, 1]), R.random() < 0.3]


def run_shard(ctx):
    R = ctx.rng
    quick = ctx.tier == "quick"
    n = 1800 if quick else 80000
    for i in range(n):
        k = i % 10
        if k < 5:
            case = {"kind": "directive", "layers": [rand_layer(R) for _ in range(R.choice([1, 1, 2, 3, 4]))], "outer": R.choice([[], [], [], ["quote"], ["list"], ["quote", "list"]])}
        elif k < 7:
            case = {"kind": "include", "final_nl": R.random() < 0.7, "slice": R.choice([None, None, "regions", "regions", "after", "before", "lines"])}
        elif k == 7:
            case = {"kind": "subst_block"}
        elif k == 8:
            case = {"kind": "subst_inline", "inline": R.choice(INLINES), "src": "none"}
        else:
            uses = R.choice([["refdef"], ["footnote"], ["target"], ["attrid"], ["footnote", "target"], ["footnote", "target", "attrid"], ["refdef"]])
            case = {"kind": "cross", "uses": uses, "where": R.choice(["before", "after", "after", "later-directive"]), "wrapper": R.choice(["directive", "directive", "include", "subst"]), "layer": rand_layer(R)}
            if case["wrapper"] == "subst":
                case["uses"] = [u for u in uses if u != "attrid"] or ["target"]
        if case["kind"] not in ("cross", "subst_inline"):
            if R.random() < 0.5 and SPEC:
                case.update(src="spec", idx=R.randrange(len(SPEC)))
            else:
                case.update(src="gen", seed=R.getrandbits(48))
                if case["kind"] == "subst_block":
                    case.update(blocks=NOJINJA_BLOCKS, inlines=NOJINJA_INLINES)
        nt = eval_case(ctx, case)
        ctx.case(repr(case), bool(nt))
        if i < 2:
            ctx.sample(case)
        if (i & 0x1F) == 0 and ctx.out_of_time():
            break
    for i in range(80 if quick else 4000):
        # body text that starts on the opening line of a directive without arguments
        ly = rand_layer(R)
        ly[0], ly[2], ly[6] = R.choice(NOARG), "none", True
        lines = [R.choice(FIRSTLINES)] + R.choice([[], [], ["second line &amp; \\*more\\*"], ["", "another paragraph"]])
        case = {"kind": "directive", "layers": [rand_layer(R) for _ in range(R.choice([0, 0, 1]))] + [ly], "outer": R.choice([[], [], ["quote"], ["list"]]), "src": "lines", "lines": lines}
        eval_case(ctx, case)
        ctx.case(repr(case), True)
        ctx.count("firstline_cases")
    # bodies that are includes themselves (of files with / without YAML front matter, nested), in every wrapper
    k = 0
    for body in INCLUDE_BODIES:
        for wrapper in ("directive", "directive-colon", "directive-deep", "include", "subst_block"):
            k += 1
            if k % ctx.nshards != ctx.shard:
                continue
            if wrapper.startswith("directive"):
                ly = rand_layer(R)
                ly[1] = ":" if wrapper == "directive-colon" else "`"
                ly[6] = False
                case = {"kind": "directive", "layers": ([rand_layer(R), rand_layer(R)] if wrapper == "directive-deep" else []) + [ly], "outer": [], "src": "lines", "lines": body}
                for l_ in case["layers"]:
                    l_[6] = False
            else:
                case = {"kind": wrapper, "src": "lines", "lines": body, "final_nl": True}
            eval_case(ctx, case)
            ctx.case(("include-body", repr(body), wrapper), True)
            ctx.count("include_bodies_compared")
    ctx.subrun("include_bodies_in_every_wrapper", exhaustive=True, bodies=len(INCLUDE_BODIES))
    for k, pth in enumerate(["plainfile.md", "./plainfile.md", "sub/../plainfile.md", "sub/./../plainfile.md", "../TMPBASE/plainfile.md", ".//plainfile.md"]):
        if k % ctx.nshards == ctx.shard % 6:
            case = {"kind": "include_twice", "path": pth}
            eval_case(ctx, case)
            ctx.case(("include_twice", pth), True)
    for i in range(60 if quick else 3000):
        case = {"kind": "repeat", "uses": R.choice([["refdef"], ["footnote"], ["target"], ["refdef", "footnote"], ["refdef", "footnote", "target"]]), "wrapper": R.choice(["directive", "directive", "include", "subst"]), "layer": rand_layer(R)}
        eval_case(ctx, case)
        ctx.case(repr(case), True)
    if ctx.shard == 0:
        ctx.notes["spec_bodies"] = len(SPEC)


def finalize(m, tier):
    c = m["counters"]
    for k, lo in (("pairs_compared", 8000), ("pairs_equal:directive", 4000), ("pairs_equal:include", 1500), ("pairs_equal:subst_block", 500), ("pairs_equal:subst_inline", 500), ("cross_compared", 1500), ("cross_equal", 800), ("repeat_compared", 500), ("repeat_equal_and_resolved", 200)):
        if c.get(k, 0) < lo:
            m["inconclusive"].append(f"monitor observed only {c.get(k, 0)} '{k}' events (< {lo})")
    bad = sum(v for k, v in c.items() if k.startswith("no_document:")) + c.get("wrapper_not_found", 0)
    if bad > 0.05 * max(1, m["evaluations"]):
        m["inconclusive"].append(f"oracle not applicable to {bad} of {m['evaluations']} cases (> 5%)")
    mon.require_reach(m, ANCHORS)
