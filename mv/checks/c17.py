"""C17 - HTML blocks: verbatim pass-through, <img>/<div class="admonition"> = directives, GFM tag filter.

Three monitors: (1) pass-through - the ordered list of html_block/html_inline token contents that are not convertible
(independent classifier over the stdlib html.parser) must equal the ordered list of raw html nodes, under all four
html_image/html_admonition combinations; (2) differential - an <img> / <div class="admonition"> renders to the same
nodes as the image / admonition directive written with the same attribute values and inner Markdown; (3) GFM filter -
in gfm_only every raw html text, tokenised by the stdlib html.parser, contains no start/end tag on the disallowed list,
and differs from the token content only by '<' -> '&lt;'.
"""

from __future__ import annotations

import io
import json
import os
import re
from html.parser import HTMLParser

from .. import core, drive, mon

PROP = "C17"
RULE = (
    "generated HTML blocks / inline HTML (elements, comments, PIs, declarations, CDATA, custom tags, attribute sets and values "
    "incl. characters significant to the option syntax, nested content, unclosed tags) at top level and inside quotes / lists / "
    "directives, x html_image x html_admonition; <img> attribute sets x value alphabet x block/inline position vs the image "
    "directive; <div class=admonition> (title / no title / <p> children / bare text / char refs / name / classes) vs the "
    "admonition directive; gfm_only: 9 disallowed tags x case x following character x open/close x block/inline/attribute "
    "context; distinct by hash of (document, config); non-trivial = the document has >= 1 html token"
)
ASSUME = [
    "attribute values are compared after HTML unescaping (html.parser semantics); a valueless attribute is the empty string",
    "gfm_only is driven through create_md_parser(gfm config) with the linkify rule disabled (linkify-it-py is not importable here)",
    "hard breaks and strikethrough are not generated in pass-through documents (they create raw nodes of their own)",
]
SHARDS = {"quick": 16, "thorough": 16}
BUDGET_S = {"quick": 45, "thorough": 900}
ANCHORS = ["html_to_nodes.html_to_nodes", "html_to_nodes.default_html", "DocutilsRenderer.render_html_block", "DocutilsRenderer.render_html_inline", "DocutilsRenderer.run_directive", "parse_html.tokenize_html"]

VOID = {"area", "base", "br", "col", "embed", "hr", "img", "input", "link", "meta", "param", "source", "track", "wbr"}
DISALLOWED = ["iframe", "noembed", "noframes", "plaintext", "script", "style", "title", "textarea", "xmp"]


def setup(ctx):
    mon.start_reach(ctx)


def teardown(ctx):
    mon.finish_reach(ctx, ANCHORS)


# ------------------------------------------------------------------------------------------- independent classifier


class Top(HTMLParser):
    """Top-level nodes of an HTML fragment: list of (kind, name, attrs)."""

    def __init__(self):
        super().__init__(convert_charrefs=False)
        self.depth = 0
        self.stack = []
        self.top = []
        self.tags = []

    def handle_starttag(self, tag, attrs):
        self.tags.append(tag)
        if self.depth == 0:
            self.top.append(("el", tag, dict(attrs)))
        if tag not in VOID:
            self.stack.append(tag)
            self.depth += 1

    def handle_startendtag(self, tag, attrs):
        self.tags.append(tag)
        if self.depth == 0:
            self.top.append(("el", tag, dict(attrs)))

    def handle_endtag(self, tag):
        self.tags.append(tag)
        if tag in VOID:
            return
        if tag in self.stack:
            while self.stack:
                self.depth -= 1
                if self.stack.pop() == tag:
                    break

    def handle_data(self, data):
        if self.depth == 0 and data.strip():
            self.top.append(("text", "", {}))

    def _other(self, *a):
        if self.depth == 0:
            self.top.append(("other", "", {}))

    handle_comment = handle_decl = handle_pi = unknown_decl = handle_charref = handle_entityref = _other


def top_nodes(content):
    p = Top()
    try:
        p.feed(content)
        p.close()
    except Exception:  # noqa: BLE001
        return None, []
    return p.top, p.tags


def convertible(content, img_on, adm_on):
    top, _ = top_nodes(content)
    if not top:
        return False
    for kind, name, attrs in top:
        if kind == "el" and name == "img" and img_on:
            continue
        if kind == "el" and name == "div" and adm_on and "admonition" in (attrs.get("class") or "").split():
            continue
        return False
    return True


# ------------------------------------------------------------------------------------------- generators

VALUES = ["x", "a b", "10px", "50%", "left", "", "a#b", "# c", 'say "hi"', "it's", "a: b", "- dash", "> gt", "| pipe", "{curly}", "[sq]", "é ü", "a\\b", "`tick`", "*star*", "100", "true", "null", "~", "a,b", "a;b", "&amp;", "x&#35;y", "tab\there", "&lt;b&gt;", "😀 smile", "𝒜-math", "a😀", "日本 語", "x\u2028y", "x\u0085y", "x\u2029 y", "\u00a0nbsp", "a\u200bb", "\ufeffbom", "e\u0301"]
ATTRS_IMG = ["class", "alt", "height", "width", "align", "name"]
OTHER_ATTRS = ["id", "title", "style", "data-x", "loading"]


def gen_fragment(R):
    """An HTML fragment that is never 'all img / all div.admonition' (pass-through expected in every configuration)."""
    k = R.randrange(26)
    v = R.choice(VALUES).replace('"', "&quot;").replace("\t", " ")
    if k == 0:
        return f'<div class="box" data-v="{v}">\ninner <b>bold</b> *not md*\n</div>', "block"
    if k == 1:
        return "<!-- comment " + v.replace("--", "- -") + "\nsecond line -->", "block"
    if k == 2:
        return f"<?php echo '{v}' ?>", "block"
    if k == 3:
        return "<!DOCTYPE html>", "block"
    if k == 4:
        return "<![CDATA[ raw & <data> ]]>", "block"
    if k == 5:
        return "<pre>\n  keep   spaces\n\n  after blank\n</pre>", "block"
    if k == 6:
        return f'<x-custom a="{v}">', "block"
    if k == 7:
        return '<table>\n<tr><td>cell</td></tr>\n</table>', "block"
    if k == 8:
        return f'text <span class="s" title="{v}">inline</span> more', "inline"
    if k == 9:
        return 'text <img src="in.png" alt="A"> and <b>b</b> after', "inline"
    if k == 10:
        return '<div class="admonition-like">\n<img src="x.png">\n</div>', "block"
    if k == 11:
        return '<p>unclosed <i>tags\n<img src="y.png">', "block"
    # blocks that stop in the middle of a construct (the block ends at the blank line / the end of the input)
    if k == 12:
        return f'<div class="outer" data-v="{v}"', "block"
    if k == 13:
        return "<div>a</div", "block"
    if k == 14:
        return '<img src="cut.png" alt="never closed', "block"
    if k == 15:
        return "<div>\ntext &" + R.choice(["A", "amp", "#3", "#x2"]), "block"
    if k == 16:
        return "<section>\ntext <", "block"
    if k == 17:
        return '<div class="admonition"\ntitle="cut', "block"
    # a convertible element followed, in the SAME html block, by something that is not: the whole block passes through
    if k == 18:
        return '<div class="admonition">\n<p>text with an omitted end tag\n</div>\n<table><tr><td>cell</td></tr></table>', "block"
    if k == 19:
        return '<div class="admonition note"><ul><li>item <em>open</div>\n<span>after</span>', "block"
    if k == 20:
        return '<img src="first.png"><p>tail', "block"
    # ... or by something that has no tag name at all (a comment, text, a character reference, a processing instruction)
    if k == 22:
        return '<img src="a.png">\n<!-- prettier-ignore -->', "block"
    if k == 23:
        return '<div class="admonition">\n<p>x</p>\n</div>\n<!-- markdownlint-disable -->\n<?pi y?>', "block"
    if k == 24:
        return f'<img src="a.png">\nFigure 1: caption {v.replace("<", "&lt;")}', "block"
    if k == 25:
        return '<img src="a.png" alt="A"> &amp; &#35;\n<img src="b.png">', "block"
    return R.choice(["<!-- never closed " + v.replace("--", "- -"), "<?php never closed", "<![CDATA[ never closed", "<!DOCTYPE never closed"]), "block"


def in_container(R, lines, kind):
    if kind == "quote":
        return ["> " + l if l else ">" for l in lines]
    if kind == "list":
        return [("- " if i == 0 else "  ") + l if l else "" for i, l in enumerate(lines)]
    if kind == "note":
        return ["````{note}"] + lines + ["````"]
    return lines


def yaml_q(v):
    return json.dumps(v, ensure_ascii=False)


# ------------------------------------------------------------------------------------------- evaluation


def render(text, exts, **kw):
    return drive.parse_pre(text, myst_enable_extensions=exts, **kw)


def html_tokens(text, exts):
    """Contents of html_block / html_inline tokens in document order, looking into nested-parsed directive bodies is not needed:
    pass-through documents put html only where markdown-it itself tokenises it (top level, quotes, lists) or in a {note} body,
    which is tokenised here by a second parse of the fence content."""
    from markdown_it.renderer import RendererHTML

    from myst_parser.config.main import MdParserConfig
    from myst_parser.parsers.mdit import create_md_parser

    md = create_md_parser(MdParserConfig(enable_extensions=exts), RendererHTML)
    out = []

    def walk(tokens):
        for t in tokens:
            if t.type in ("html_block",):
                out.append(t.content)
            elif t.type == "inline":
                for c in t.children or []:
                    if c.type == "html_inline":
                        out.append(c.content)
            elif t.type == "fence" and t.info.strip().startswith("{note}"):
                walk(md.parse(t.content))

    walk(md.parse(text))
    return out


def raw_html(doc):
    from docutils import nodes

    return [r.astext() for r in doc.findall(nodes.raw) if r.get("format") == "html"]


def eval_pass(ctx, case):
    text = case["text"]
    for img_on in (False, True):
        for adm_on in (False, True):
            exts = (["html_image"] if img_on else []) + (["html_admonition"] if adm_on else [])
            try:
                toks = html_tokens(text, exts)
                doc, w = render(text, exts)
            except Exception as e:  # noqa: BLE001
                ctx.count("no_document:" + type(e).__name__)
                continue
            exp = [c for c in toks if not convertible(c, img_on, adm_on)]
            got = raw_html(doc)
            ctx.count("passthrough_configs_compared")
            ctx.count("html_tokens_seen", len(toks))
            if got != exp:
                i = next((j for j, (a, b) in enumerate(zip(exp, got)) if a != b), min(len(exp), len(got)))
                a = exp[i] if i < len(exp) else None
                b = got[i] if i < len(got) else None
                if a is not None and b is not None and a.strip() == b.strip():
                    key = "passthrough:whitespace-changed"
                elif a is not None and b is not None:
                    key = "passthrough:text-changed"
                elif a is None:
                    key = "passthrough:extra-raw-node"
                else:
                    key = "passthrough:raw-node-missing"
                ctx.violation(key, f"[html_image={img_on} html_admonition={adm_on}] raw node {i}: token content {a!r}, raw text {b!r}", case, {"expected": exp, "got": got, "warnings": w[-500:]})
    return True


def masked(nodes_, kinds):
    from docutils import nodes

    out = []
    for n in nodes_:
        n = n.deepcopy()
        drive.mask_lines(n)
        out.append(n.pformat())
    return "".join(out)


def warn_msgs(w):
    return sorted(re.sub(r"\s+", " ", x["msg"]) for x in drive.split_warnings(w))


def eval_img(ctx, case):
    from docutils import nodes

    attrs = case["attrs"]  # list of [name, value|None]
    src = case["src"]
    parts = []
    for k, v in attrs:
        if v is None:
            parts.append(k)
        else:
            parts.append(f'{k}="' + v.replace("&", "&amp;").replace('"', "&quot;").replace("<", "&lt;").replace(">", "&gt;") + '"')
    tn, sn = {"lower": ("img", "src"), "upper": ("IMG", "SRC"), "mixed": ("Img", "sRc")}[case.get("tagcase", "lower")]
    tag = f"<{tn} " + (f'{sn}="{src}" ' if src is not None else "") + " ".join(parts) + (" />" if case.get("selfclose") else ">")
    opts = [(k, (v or "")) for k, v in attrs if k in ATTRS_IMG]
    # html semantics: the first occurrence of a duplicated attribute wins in browsers, html.parser keeps the last in dict(): avoid duplicates in the generator
    dlines = ["```{image} " + (src or ""), "---"] + [f"{k}: {yaml_q(v)}" for k, v in sorted(opts)] + ["---", "```"]
    if not opts:
        dlines = ["```{image} " + (src or ""), "```"]
    if case["pos"] == "inline":
        html_doc = f"before {tag} after\n"
    else:
        html_doc = tag + "\n"
    dir_doc = "\n".join(dlines) + "\n"
    exts = ["html_image"] + (["html_admonition"] if case.get("adm") else [])
    try:
        d1, w1 = render(html_doc, exts)
        d2, w2 = render(dir_doc, exts)
    except Exception as e:  # noqa: BLE001
        sig = core.exc_signature(e)
        ctx.violation(f"raises:{sig['type']}:{sig['myst']}", f"rendering raised {sig['type']}: {sig['msg']}", case, {"html": html_doc, "directive": dir_doc, **sig})
        return True
    im1 = list(d1.findall(nodes.image))
    im2 = list(d2.findall(nodes.image))
    detail = {"html": html_doc, "directive": dir_doc, "from_html": d1.pformat()[:1500], "from_directive": d2.pformat()[:1500], "w_html": w1[-400:], "w_directive": w2[-400:]}
    ctx.count("img_pairs_compared")
    a, b = masked(im1, None), masked(im2, None)
    if a != b:
        if len(im1) != len(im2):
            key = "img:node-count"
        else:
            diff = [k for k in set(im1[0].attributes) | set(im2[0].attributes) if im1[0].get(k) != im2[0].get(k)] if im1 and im2 else []
            key = "img:attribute-differs:" + ",".join(sorted(diff))
        ctx.violation(key, f"<img> and the image directive with the same values give different image nodes ({key})", case, detail)
    elif not im1:
        ctx.count("img_pairs_both_rejected")
    m1, m2 = warn_msgs(w1), warn_msgs(w2)
    if len(m1) != len(m2):
        ctx.violation("img:warnings-differ", f"warnings differ: html {m1[:2]}, directive {m2[:2]}", case, detail)
    return True


NON_TITLE_CLASSES = ["subtitle", "untitled", "title-row", "Entitled", "x admonition-titles", "titles", "notitle x"]


def eval_adm(ctx, case):
    from docutils import nodes

    cls, name, title, paras, bare = case["classes"], case.get("name"), case.get("title"), case.get("paras", []), case.get("bare")
    esc = lambda v: v.replace("&", "&amp;").replace('"', "&quot;")  # noqa: E731
    attrs = f'class="{esc(cls)}"' + (f' name="{esc(name)}"' if name is not None else "")
    # a first <p> whose class merely CONTAINS the letters 'title' is ordinary content: the admonition keeps the default title
    ntitle = title is not None and case.get("title_class", "title") in NON_TITLE_CLASSES
    if ntitle:
        case = {**case, "title_tag": "p"}
        paras = [title] + list(paras)
    inner = []
    if ntitle:
        inner.append(f'<p class="{case["title_class"]}">{title}</p>')
        paras_html = paras[1:]
    else:
        paras_html = paras
    if title is not None and not ntitle:
        inner.append(f'<{case.get("title_tag", "p")} class="{case.get("title_class", "title")}">{title}</{case.get("title_tag", "p")}>')
    for i, p in enumerate(paras_html):
        # the end tag of the last <p> may be omitted: </div> closes it
        inner.append(f"<p>{p}" if case.get("unclosed") and i == len(paras_html) - 1 and not bare else f"<p>{p}</p>")
    if bare:
        inner.append(bare)
    dv = {"lower": "div", "upper": "DIV", "mixed": "Div"}[case.get("tagcase", "lower")]
    html_doc = f"<{dv} {attrs.replace('class=', 'CLASS=') if dv == 'DIV' else attrs}>\n" + "\n".join(inner) + f"\n</{dv}>\n"
    body = "\n\n".join(list(paras) + ([bare] if bare else []))
    opts = [("class", cls)] + ([("name", name)] if name is not None else [])
    dlines = ["````{admonition} " + (title if title is not None and not ntitle else "Note"), "---"] + [f"{k}: {yaml_q(v)}" for k, v in sorted(opts)] + ["---", "", body, "````"]
    dir_doc = "\n".join(dlines) + "\n"
    if case.get("twice") and name is None:
        # two admonitions back to back in ONE html block == two directives
        html_doc = html_doc + html_doc
        dir_doc = dir_doc + "\n" + dir_doc
    exts = ["html_admonition"] + (["html_image"] if case.get("img") else [])
    try:
        d1, w1 = render(html_doc, exts)
        d2, w2 = render(dir_doc, exts)
    except Exception as e:  # noqa: BLE001
        sig = core.exc_signature(e)
        ctx.violation(f"raises:{sig['type']}:{sig['myst']}", f"rendering raised {sig['type']}: {sig['msg']}", case, {"html": html_doc, "directive": dir_doc, **sig})
        return True
    a1 = [n for n in d1.children if not isinstance(n, nodes.system_message)]
    a2 = [n for n in d2.children if not isinstance(n, nodes.system_message)]
    detail = {"html": html_doc, "directive": dir_doc, "from_html": d1.pformat()[:2000], "from_directive": d2.pformat()[:2000], "w_html": w1[-400:], "w_directive": w2[-400:]}
    ctx.count("admonition_pairs_compared")
    if masked(a1, None) != masked(a2, None):
        t1 = next(iter(d1.findall(nodes.title)), None)
        t2 = next(iter(d2.findall(nodes.title)), None)
        if (t1.astext() if t1 is not None else None) != (t2.astext() if t2 is not None else None):
            key = "admonition:title-differs"
        elif not a1 or not a2 or a1[0].tagname != a2[0].tagname:
            key = "admonition:not-converted"
        elif a1[0].get("classes") != a2[0].get("classes") or a1[0].get("names") != a2[0].get("names"):
            key = "admonition:attributes-differ"
        else:
            key = "admonition:inner-markdown-differs"
        ctx.violation(key, f"<div class=admonition> and the admonition directive give different nodes ({key})", case, detail)
    if len(warn_msgs(w1)) != len(warn_msgs(w2)):
        ctx.violation("admonition:warnings-differ", f"warnings differ: html {warn_msgs(w1)[:2]}, directive {warn_msgs(w2)[:2]}", case, detail)
    return True


def gfm_doc(text):
    from docutils.frontend import get_default_settings
    from docutils.utils import new_document

    from myst_parser.config.main import MdParserConfig
    from myst_parser.mdit_to_docutils.base import DocutilsRenderer
    from myst_parser.parsers.docutils_ import Parser
    from myst_parser.parsers.mdit import create_md_parser

    cfg = MdParserConfig(gfm_only=True)
    settings = get_default_settings(Parser)
    settings.warning_stream = io.StringIO()
    settings.halt_level = 5
    doc = new_document("doc.md", settings=settings)
    md = create_md_parser(cfg, DocutilsRenderer)
    md.disable("linkify")
    md.options["linkify"] = False
    md.options["document"] = doc
    md.render(text)
    from markdown_it.renderer import RendererHTML

    md2 = create_md_parser(cfg, RendererHTML)
    md2.disable("linkify")
    md2.options["linkify"] = False
    toks = []
    for t in md2.parse(text):
        if t.type == "html_block":
            toks.append(t.content)
        elif t.type == "inline":
            toks += [c.content for c in t.children or [] if c.type == "html_inline"]
    return doc, toks


def eval_gfm(ctx, case):
    text = case["text"]
    try:
        doc, toks = gfm_doc(text)
    except Exception as e:  # noqa: BLE001
        sig = core.exc_signature(e)
        ctx.violation(f"raises:{sig['type']}:{sig['myst']}", f"gfm rendering raised {sig['type']}: {sig['msg']}", case, sig)
        return True
    raws = raw_html(doc)
    ctx.count("gfm_docs")
    ctx.count("gfm_html_tokens", len(toks))
    for r in raws:
        _, tags = top_nodes(r)
        bad = [t for t in tags if t.lower() in DISALLOWED]
        if bad:
            ctx.violation("gfm:disallowed-tag-survives", f"raw html {r!r} still contains the tag(s) {bad}", case, {"raw": raws, "tokens": toks})
        else:
            ctx.count("gfm_raw_nodes_clean")
    if [r.replace("&lt;", "<") for r in raws] != [t.replace("&lt;", "<") for t in toks]:
        ctx.violation("gfm:text-changed-beyond-filter", "raw html differs from the token content by more than '<' -> '&lt;'", case, {"raw": raws, "tokens": toks})
    # positive control: the tag really was in the source token (so the filter had something to do)
    if any(t.lower() in DISALLOWED for c in toks for t in (top_nodes(c)[1] or [])):
        ctx.count("gfm_docs_with_disallowed_tag_in_source")
    return True


def eval_sphinx_seq(ctx, case):
    """Sphinx front end, the project enables html_image / html_admonition: every <img> / admonition div of a page gives the nodes of the directive spelling -
    also AFTER a figure-md directive (which switches html_image on for its own body only) and in a page read after such a page."""
    from docutils import nodes

    n = case["n"]
    imgs = [f'<img src="s{n}a.png" alt="before {n}">', f'<img src="s{n}b.png" alt="after figure" width="{10 + n}px">', f'<img src="s{n}c.png" alt="inline" class="c{n}">', f'<img src="s{n}d.png" alt="later page">']
    dirs = [["```{image} " + f"s{n}a.png", f":alt: before {n}", "```"], ["```{image} " + f"s{n}b.png", ":alt: after figure", f":width: {10 + n}px", "```"], ["```{image} " + f"s{n}c.png", ":alt: inline", f":class: c{n}", "```"],
            ["```{image} " + f"s{n}d.png", ":alt: later page", "```"]]
    fig = ["```{figure-md} fig-" + str(n), f'<img src="f{n}.png" alt="fig">', "", "caption", "```"] if case["figure"] else ["plain paragraph instead of a figure"]
    adm = ['<div class="admonition note" name="adm-seq">', '<p class="title">T</p>', "<p>inner *md*</p>", "</div>"]
    a = "\n".join(["# A", "", imgs[0], ""] + fig + ["", imgs[1], "", "para with " + imgs[2] + " inline", ""] + adm + [""])
    files = {"index.md": "# I\n\n```{toctree}\na_first\nb_second\nc_dirs\n```\n", "a_first.md": a, "b_second.md": "# B\n\n" + imgs[3] + "\n",
             "c_dirs.md": "# C\n\n" + "\n\n".join("\n".join(d) for d in dirs) + "\n\n````{admonition} T\n:class: note\n:name: adm-seq-d\n\ninner *md*\n````\n"}
    b = drive.SphinxBuild(files, conf={"myst_enable_extensions": ["html_image", "html_admonition", "colon_fence"]}, builder="dummy")
    try:
        try:
            b.build()
        except Exception as e:  # noqa: BLE001
            sig = core.exc_signature(e)
            ctx.violation(f"sphinx-seq:raises:{sig['type']}", f"the build raised {sig['type']}: {sig['msg'][:200]}", case, sig)
            return True

        def images(doc, skip_figures=True):
            out = []
            for im in doc.findall(nodes.image):
                p, in_fig = im.parent, False
                while p is not None:
                    in_fig = in_fig or isinstance(p, nodes.figure)
                    p = p.parent
                if not in_fig:
                    q = im.deepcopy()
                    drive.mask_lines(q)
                    for k in ("candidates", "uri"):
                        q.attributes.pop(k, None)
                    out.append((os.path.basename(im.get("uri", "")), q.pformat()))
            return out

        got = images(b.doctree("a_first")) + images(b.doctree("b_second"))
        exp = images(b.doctree("c_dirs"))
        raws = [r.astext()[:60] for dn in ("a_first", "b_second") for r in b.doctree(dn).findall(nodes.raw)]
        ctx.count("sphinx_sequences")
        if got != exp:
            ctx.violation("sphinx-seq:img-not-converted-like-directive" + (":after-figure-md" if case["figure"] else ""), f"with html_image enabled for the project, the <img> elements of the pages give {len(got)} image nodes "
                          f"{[g[0] for g in got]}, the directive spellings {len(exp)} {[e[0] for e in exp]}; raw html left: {raws[:3]}", case, {"files": files, "got": got, "expected": exp})
        adm_html = [x for x in b.doctree("a_first").findall(nodes.admonition)]
        if len(adm_html) != 1:
            ctx.violation("sphinx-seq:admonition-not-converted", f"{len(adm_html)} admonition nodes from the html admonition (after figure-md={case['figure']})", case, {"files": files})
    finally:
        b.close()
    return True


def eval_case(ctx, case):
    return {"pass": eval_pass, "img": eval_img, "adm": eval_adm, "gfm": eval_gfm, "sphinx_seq": eval_sphinx_seq}[case["kind"]](ctx, case)


# ------------------------------------------------------------------------------------------- workload


def case_pass(R):
    parts = []
    for _ in range(R.randint(1, 4)):
        frag, pos = gen_fragment(R)
        L = frag.split("\n")
        L = in_container(R, L, R.choice(["top", "top", "quote", "list", "note"]))
        parts += L + [""]
        if R.random() < 0.3:
            parts += ['<img src="blk.png" alt="B">', ""]
        if R.random() < 0.3:
            parts += ["plain *markdown* paragraph", ""]
    return {"kind": "pass", "text": "\n".join(parts) + "\n"}


def case_img(R):
    names = R.sample(ATTRS_IMG + OTHER_ATTRS, R.randint(0, 5))
    attrs = []
    for k in names:
        if k == "width":
            v = R.choice(["10px", "50%", "7", "wide", "", "10 px", "3em"])
        elif k == "height":
            v = R.choice(["10px", "7", "tall", "", "2cm"])
        elif k == "align":
            v = R.choice(["left", "center", "right", "top", "LEFT", "", "justify"])
        else:
            v = R.choice(VALUES)
        if R.random() < 0.07:
            v = None
        attrs.append([k, v])
    return {"kind": "img", "attrs": attrs, "src": R.choice(["a.png", "a.png", "p/q r.png", "https://e.org/i.png?x=1&y=2", "", None, "ünï.png"]), "pos": R.choice(["block", "inline"]), "selfclose": R.random() < 0.3, "adm": R.random() < 0.3, "tagcase": R.choice(["lower", "lower", "upper", "mixed"])}


def case_adm(R):
    paras = [R.choice(["plain para", "with *em* and `code`", "char refs &#42;not em&#42; &amp; &lt;b&gt;", "a [link](https://e.org)", "two\nlines", "{emphasis}`role`", "&#96;not code&#96; &#91;x&#93;(y)",
                      # inline html inside the body: attributes in every spelling are part of the inner content
                      'x <a href="" title="">empty values</a> y', 'tick <input type="checkbox" disabled checked> box', 'q <span title="say &quot;hi&quot;" data-x="">s</span>', "<b class=\"\">b</b> <i hidden>i</i>",
                      # self-closing tags of elements that are not void (svg, MathML, custom elements): the solidus is part of the source
                      'icon <x-icon name="a"/> after <b>bold</b>', '<svg width="9"><circle r="8"/><rect width="1"/></svg> pic', "m <math><mi/><mo/></math> n", "br <br/> img <img src=\"i.png\"/> div <div/> tail"]) for _ in range(R.randint(0, 2))]
    bare = R.choice([None, None, "bare **text** &#42;x&#42;", "- item one\n- item two", "<!-- a comment inside the admonition -->"]) if paras else R.choice(["bare **text**", "- item one\n- item two", "x &#95;y&#95;"])
    title = R.choice([None, "My *title*", "T &amp; U", "&#42;T&#42;", "plain"])
    return {"kind": "adm", "classes": R.choice(["admonition", "admonition note", "warning admonition x-y", "admonition  two  spaces", "admonition\twarning", "admonition\n     note", "tip\x0cadmonition", "admonition\r\nnote"]), "name": R.choice([None, None, "adm-name", "Name With Caps", "n#1", 'q"uote']), "title": title,
            "title_tag": R.choice(["p", "div"]), "title_class": R.choice(["title", "admonition-title", "title extra", "title", "extra admonition-title"] + NON_TITLE_CLASSES), "paras": paras, "bare": bare, "img": R.random() < 0.3, "tagcase": R.choice(["lower", "lower", "upper", "mixed"]), "unclosed": R.random() < 0.3, "twice": R.random() < 0.3}


def gfm_cases():
    out = []
    for tag in DISALLOWED:
        for variant in (tag, tag.upper(), tag.capitalize(), tag[0] + tag[1:].upper()):
            for after in ["\t", "\n", "\f", "\r", " ", "/", ">"]:
                a = f"<{variant}{after}" + ("" if after == ">" else ">")
                out.append(f"{a}\ncontent\n</{variant}>\n")  # block
                out.append(f"para {a}x</{variant}{after if after in ' ' else ''}> end\n")  # inline
                out.append(f"<div>\n{a}\n</{variant}>\n</div>\n")  # nested in a block
            out.append(f'<a title="<{variant}>">t</a>\n')
            out.append(f"<{variant}/>\n")
            out.append(f"x <{variant} a=\"1\" b='2'/> y\n")
            out.append(f"<!-- <{variant}> -->\n\n<{variant}x>not on the list</{variant}x>\n")
    return out


def run_shard(ctx):
    R = ctx.rng
    quick = ctx.tier == "quick"
    G = gfm_cases()
    n = 0
    for i, text in enumerate(G):
        if i % ctx.nshards != ctx.shard:
            continue
        eval_gfm(ctx, {"kind": "gfm", "text": text})
        ctx.case(("gfm", text), True)
        n += 1
    ctx.subrun("gfm_tag_matrix", exhaustive=True, documents=len(G) if ctx.shard == 0 else 0, cases=n)
    ctx.sample({"kind": "gfm", "text": G[ctx.shard]})
    for i in range(2 if quick else 60):
        case = {"kind": "sphinx_seq", "n": ctx.shard * 100 + i, "figure": i % 2 == 0}
        eval_case(ctx, case)
        ctx.case(repr(case), True)
    nr = 1500 if quick else 60000
    for i in range(nr):
        k = i % 3
        case = (case_pass, case_img, case_adm)[k](R)
        eval_case(ctx, case)
        ctx.case(repr(case), True)
        if i < 3:
            ctx.sample(case)
        if (i & 0x1F) == 0 and ctx.time_left() < ctx.budget_s * 0.25:
            break
    # gfm soup: random documents with disallowed tags sprinkled in
    for i in range(300 if quick else 20000):
        tag = R.choice(DISALLOWED)
        tag = "".join(c.upper() if R.random() < 0.3 else c for c in tag)
        frag, _ = gen_fragment(R)
        text = frag.replace("<b>", f"<{tag}>").replace("</b>", f"</{tag}>").replace("<span", f"<{tag}").replace("</span>", f"</{tag}>") + f"\n\n<{tag}{R.choice([' ', '/', '>', chr(10)])}x>\n"
        eval_gfm(ctx, {"kind": "gfm", "text": text})
        ctx.case(("gfm", text), True)
        if (i & 0x3F) == 0 and ctx.out_of_time():
            break


def finalize(m, tier):
    c = m["counters"]
    for k, lo in (("passthrough_configs_compared", 3000), ("html_tokens_seen", 4000), ("img_pairs_compared", 1200), ("admonition_pairs_compared", 1200), ("gfm_docs", 2000), ("gfm_raw_nodes_clean", 2000), ("gfm_docs_with_disallowed_tag_in_source", 1500),
                  ("sphinx_sequences", 8)):
        if c.get(k, 0) < lo:
            m["inconclusive"].append(f"monitor observed only {c.get(k, 0)} '{k}' events (< {lo})")
    if c.get("img_pairs_both_rejected", 0) > 0.5 * max(1, c.get("img_pairs_compared", 0)):
        m["inconclusive"].append("more than half of the <img> pairs produced no image node on either side")
    mon.require_reach(m, ANCHORS)
