"""C05 - heading levels determine section nesting; nested headings never make sections.

Executable-model monitor.  The model (15 lines, ``model()``) is run beside the real renderer on every generated item
sequence; observed: the parent relation of section nodes (titles carry a marker), rubric nodes and their ``level``,
the section every marker paragraph ends up in, document order, and the [myst.header] warnings (count, text, line).
"""

from __future__ import annotations

import itertools
import os
import re
import shutil
import tempfile

from .. import core, drive, mon

PROP = "C05"
RULE = (
    "item sequences (top-level headings of level 1-6 in ATX/setext spelling, headings inside quote / list item / "
    "directive / colon-fence / nested containers, marker paragraphs and other blocks, heading-offset includes); all level "
    "sequences up to the tier's length are enumerated (distinct by construction), the rest is random (distinct by hash); "
    "non-trivial = at least two headings"
)
ASSUME = [
    "observed before transforms (Parser.parse only), so docutils' doctitle promotion does not rearrange sections",
    "for headings that come from an included file only the warning count/text is compared, not its line (line arithmetic of includes is C04's business)",
]
SHARDS = {"quick": 16, "thorough": 16}
BUDGET_S = {"quick": 40, "thorough": 900}
ANCHORS = ["DocutilsRenderer.update_section_level_state", "DocutilsRenderer.render_heading", "DocutilsRenderer.nested_render_text", "MockState.nested_parse", "MockIncludeDirective.run"]

TMP = None


def setup(ctx):
    global TMP
    TMP = tempfile.mkdtemp(prefix="c05_")
    register_titled_directive()
    mon.start_reach(ctx)


def register_titled_directive():
    """A third-party style directive that nested-parses its body with match_titles=True (what Sphinx' ``only`` does):
    headings inside it may open sections *under its own node*; the surrounding section structure must not change."""
    from docutils import nodes
    from docutils.parsers.rst import Directive, directives

    class Titled(Directive):
        has_content = True

        def run(self):
            node = nodes.container(classes=["mv-titled"])
            self.state.nested_parse(self.content, self.content_offset, node, match_titles=True)
            return [node]

    directives.register_directive("mv-titled", Titled)
    from docutils.parsers.rst import roles

    def boom_role(name, rawtext, text, lineno, inliner, options=None, content=None):
        raise ValueError("role implementation failed")

    roles.register_local_role("mvboom5", boom_role)

    class TitledSection(Directive):
        """The other common idiom (nested_parse_with_titles): parse into a throw-away section and return its children."""

        has_content = True

        def run(self):
            node = nodes.section()
            node.document = self.state.document
            self.state.nested_parse(self.content, self.content_offset, node, match_titles=True)
            return node.children

    directives.register_directive("mv-titled-section", TitledSection)


def teardown(ctx):
    mon.finish_reach(ctx, ANCHORS)
    shutil.rmtree(TMP, ignore_errors=True)


# ------------------------------------------------------------------------------------------- model


def model(events):
    """events: [("h", marker, level)] in source order (top-level headings only) -> (parent per marker, warnings)."""
    open_ = {0: "document"}
    parent, warns = {}, []
    for _, m, L in events:
        pl = max(l for l in open_ if l < L)
        parent[m] = open_[pl]
        if pl + 1 != L:
            warns.append((m, f"Document headings start at H{L}, not H1" if pl == 0 else f"Non-consecutive header level increase; H{pl} to H{L}"))
        open_ = {l: s for l, s in open_.items() if l < L}
        open_[L] = m
    return parent, warns


# ------------------------------------------------------------------------------------------- rendering of a case

CONTAINERS = ["quote", "bullet", "ordered", "note", "colon", "quote_in_list", "note_in_quote", "div", "deflist", "footnote", "admon_opts",
              "topic", "sidebar", "container", "epigraph", "compound", "figure", "topic_in_quote", "highlights", "pull-quote", "list-table"]
BODY_DIRECTIVES = {"topic": "{topic} A title", "sidebar": "{sidebar} A title", "container": "{container} cls", "epigraph": "{epigraph}", "compound": "{compound}",
                   "highlights": "{highlights}", "pull-quote": "{pull-quote}"}


def in_container(kind, inner):
    """inner: list of lines -> lines of the container."""
    if kind == "quote":
        return ["> " + l if l else ">" for l in inner]
    if kind == "bullet":
        return [("- " if i == 0 else "  ") + l if l else "" for i, l in enumerate(inner)]
    if kind == "ordered":
        return [("1. " if i == 0 else "   ") + l if l else "" for i, l in enumerate(inner)]
    if kind == "note":
        return ["```{note}"] + inner + ["```"]
    if kind == "admon_opts":
        return ["````{admonition} T", ":class: x", ""] + inner + ["````"]
    if kind == "colon":
        return [":::{tip}"] + inner + [":::"]
    if kind == "div":
        return ["::::", ""] + inner + ["::::"]
    if kind in BODY_DIRECTIVES:
        return ["````" + BODY_DIRECTIVES[kind]] + inner + ["````"]
    if kind == "figure":
        return ["````{figure} img.png", "caption text", ""] + inner + ["````"]
    if kind == "topic_in_quote":
        return in_container("quote", in_container("topic", inner))
    if kind == "list-table":
        return ["````{list-table}"] + in_container("bullet", in_container("bullet", inner)) + ["````"]
    if kind == "quote_in_list":
        return in_container("bullet", in_container("quote", inner))
    if kind == "note_in_quote":
        return in_container("quote", in_container("note", inner))
    if kind == "deflist":
        return ["term"] + [(":   " if i == 0 else "    ") + l if l else "" for i, l in enumerate(inner)]
    if kind == "footnote":
        lab = "f" + "".join(ch for ch in "".join(inner) if ch.isdigit())[:12]
        return [(f"[^{lab}]: x" if i == 0 else "    " + l) if (l or i == 0) else "" for i, l in enumerate([""] + inner)]
    raise ValueError(kind)


def heading_lines(m, level, style):
    if style == "setext" and level in (1, 2):
        return [m, "===" if level == 1 else "---"]
    return ["#" * level + " " + m]


def build(case):
    """-> (text, events, rubrics, paras, heading line per marker, include files)."""
    lines, events, rubrics, order, hline = [], [], {}, [], {}
    files = {}
    n = 0
    if case.get("front_title"):
        # the document title given in the front matter (title_to_header): an ordinary level-1 heading for everything that follows
        lines += ["---", "title: fmt0 front title", "---", ""]
        events.append(("h", "fmt0", 1))
        order.append("fmt0")
        hline["fmt0"] = None
    for it in case["items"]:
        n += 1
        k = it[0]
        if k == "h":
            m = f"hd{n}"
            hline[m] = len(lines) + 1
            lines += heading_lines(m, it[1], it[2] if len(it) > 2 else "atx") + [""]
            events.append(("h", m, it[1]))
            order.append(m)
        elif k == "c":
            m = f"rb{n}"
            inner = ["before", ""] * (1 if len(it) > 3 and it[3] else 0) + heading_lines(m, it[2], "atx") + ["", f"ip{n} inside"]
            lines += in_container(it[1], inner) + [""]
            rubrics[m] = it[2]
            order += [m, f"ip{n}"]
        elif k == "t":
            # headings inside a match_titles directive: allowed to make sections below the directive's node only
            inner = []
            for j, L in enumerate(it[1]):
                hline[f"tb{n}x{j}"] = len(lines) + 1 + len(inner) + 1
                inner += ["#" * L + f" tb{n}x{j}", "", f"tq{n}x{j} inside titled", ""]
            lines += ["````{mv-titled}"] + inner + ["````", ""]
        elif k == "s":
            # the same through the throw-away-section idiom: whatever the body's headings become, the OUTER structure must not change
            inner = []
            for j, L in enumerate(it[1]):
                hline[f"tb{n}x{j}"] = len(lines) + 1 + len(inner) + 1
                inner += ["#" * L + f" ts{n}x{j}", "", f"tq{n}x{j} inside titled", ""]
            lines += ["````{mv-titled-section}"] + inner + ["````", ""]
        elif k == "ri":
            # a MyST file pulled in by docutils' own include directive (:parser:): a second MyST parse runs while this document is being rendered
            fn = f"rinc{n}.md"
            files[fn] = {"para": f"inner paragraph {n}\n", "quote-heading": f"> ## quoted heading {n}\n>\n> text\n", "list": f"- item {n}\n- item\n"}[it[1]]
            lines += ["```{eval-rst}", f".. include:: {fn}", "   :parser: myst_parser.docutils_", "```", ""]
        elif k == "p":
            m = f"pp{n}"
            lines += [m + " text", ""]
            order.append(m)
        elif k == "b":
            lines += {"hr": ["***"], "code": ["    code"], "list": ["- a", "- b"], "target": ["(tg%d)=" % n], "comment": ["% c"], "fence": ["```", "x", "```"], "table": ["|a|", "|-|"], "break": ["+++"]}[it[1]] + [""]
        elif k == "inc":
            off, levels = it[1], it[2]
            fn = f"inc{n}.md"
            body = []
            nested = it[4] if len(it) > 4 else None
            boom = len(it) > 5 and it[5]
            for j, L in enumerate(levels):
                m = f"ih{n}x{j}"
                body += ["#" * L + " " + m, "", f"iq{n}x{j} para", ""]
                events.append(("h", m, L + off))
                order += [m, f"iq{n}x{j}"]
                hline[m] = None
                if boom and j == 0:
                    # the include fails here (a role implementation raises): what it rendered so far stays, the rest of the file is not rendered
                    body += ["text {mvboom5}`x` text", "", "# never rendered heading", ""]
                    break
                if nested and j == 0:
                    # an include inside the included file (its own offset applies there), followed by more headings of the outer file
                    off2, lv2 = nested
                    fn2 = f"inc{n}n.md"
                    b2 = []
                    for jj, L2 in enumerate(lv2):
                        m2 = f"ih{n}y{jj}"
                        b2 += ["#" * L2 + " " + m2, "", f"iq{n}y{jj} para", ""]
                        events.append(("h", m2, L2 + off2))
                        order += [m2, f"iq{n}y{jj}"]
                        hline[m2] = None
                    files[fn2] = "\n".join(b2)
                    body += ["```{include} " + fn2] + ([f":heading-offset: {off2}"] if off2 else []) + ["```", ""]
            files[fn] = "\n".join(body)
            lines += ["```{include} " + fn] + ([f":heading-offset: {off}"] if off or it[3] else []) + ["```", ""]
    return "\n".join(lines) + "\n", events, rubrics, order, hline, files


HDR = re.compile(r"\[myst\.header\]")


def eval_repeat(ctx, case):
    """The SAME file (identical headings, identical lines) included several times: sections are matched by document order."""
    from docutils import nodes

    lines, events = [], []
    for j, L in enumerate(case["pre"]):
        lines += ["#" * L + f" pre{j}", ""]
        events.append(("h", f"e{len(events)}", L))
    body = []
    for j, L in enumerate(case["file"]):
        body += ["#" * L + f" shared{j}", "", f"shared para {j}", ""]
    for t in range(case["times"]):
        lines += ["```{include} rep.md"] + ([f":heading-offset: {case['offset']}"] if case["offset"] else []) + ["```", ""]
        for L in case["file"]:
            events.append(("h", f"e{len(events)}", L + case["offset"]))
        if case.get("between"):
            lines += ["between paragraph", ""]
    with open(os.path.join(TMP, "rep.md"), "w", encoding="utf8") as f:
        f.write("\n".join(body))
    text = "\n".join(lines) + "\n"
    try:
        doc, wtext = drive.parse_pre(text, source_path=os.path.join(TMP, "doc.md"), report_level=2)
    except Exception as e:  # noqa: BLE001
        sig = core.exc_signature(e)
        ctx.violation(f"raises:{sig['type']}:{sig['myst']}", f"parse raised {sig['type']}: {sig['msg']}", case, sig)
        return
    exp_parent, exp_warns = model(events)
    detail = {"text": text, "included": "\n".join(body), "stream": wtext}
    secs = list(doc.findall(nodes.section))
    if len(secs) != len(events):
        ctx.violation("repeat:section-count", f"{len(secs)} sections for {len(events)} headings (the same file included {case['times']} times)", case, detail)
    else:
        index = {id(s): f"e{i}" for i, s in enumerate(secs)}
        for i, s in enumerate(secs):
            p = "document" if isinstance(s.parent, nodes.document) else index.get(id(s.parent), f"<{s.parent.tagname}>")
            if p != exp_parent[f"e{i}"]:
                ctx.violation("repeat:wrong-parent", f"heading number {i} ({s[0].astext()!r}) is under {p}, model says {exp_parent[f'e{i}']}", case, detail)
                break
    got = sorted(w["msg"].split(" [myst.header]")[0] for w in drive.split_warnings(wtext) if HDR.search(w["msg"]))
    exp = sorted(msg for _, msg in exp_warns)
    if got != exp:
        ctx.violation("repeat:warning-count-or-text", f"[myst.header] warnings {got}, model {exp} (every inclusion of the file skips levels again)", case, detail)
    nmsg = sum(1 for sm in doc.findall(nodes.system_message) if "[myst.header]" in sm.astext())
    if nmsg != len(exp_warns):
        ctx.violation("repeat:warning-node-count", f"{nmsg} [myst.header] system_message nodes, model {len(exp_warns)}", case, detail)
    ctx.count("repeat_cases")
    ctx.count("repeat_warnings_expected", len(exp_warns))
    ctx.count("sections_checked", len(events))


def eval_case(ctx, case):
    from docutils import nodes

    if case.get("kind") == "repeat":
        return eval_repeat(ctx, case)
    text, events, rubrics, order, hline, files = build(case)
    d = TMP
    for fn, body in files.items():
        with open(os.path.join(d, fn), "w", encoding="utf8") as f:
            f.write(body)
    src = os.path.join(d, "doc.md")
    try:
        doc, wtext = drive.parse_pre(text, source_path=src, myst_enable_extensions=["colon_fence", "deflist"], report_level=2, myst_title_to_header=bool(case.get("front_title")))
    except Exception as e:  # noqa: BLE001
        sig = core.exc_signature(e)
        ctx.violation(f"raises:{sig['type']}:{sig['myst']}", f"parse raised {sig['type']}: {sig['msg']}", case, sig)
        return
    exp_parent, exp_warns = model(events)
    detail = {"text": text}
    # --- sections
    seen = {}
    for sec in doc.findall(nodes.section):
        if not len(sec) or not isinstance(sec[0], nodes.title):
            ctx.violation("structure:section-without-title", "a section does not start with a title", case, detail)
            return
        m = sec[0].astext().split()[0] if sec[0].astext().split() else "?"
        par = sec.parent
        if isinstance(par, nodes.document):
            p = "document"
        elif isinstance(par, nodes.section):
            p = par[0].astext().split()[0]
        else:
            p = f"<{par.tagname}>"
        if m in seen:
            ctx.violation("structure:section-duplicated", f"heading {m} produced two sections", case, detail)
        seen[m] = p
    for m, p in exp_parent.items():
        if m not in seen:
            ctx.violation("parent:section-missing", f"heading {m} produced no section", case, detail)
        elif seen[m] != p:
            ctx.violation("parent:wrong-parent", f"section {m} is under {seen[m]}, model says {p}", case, {**detail, "observed": seen, "model": exp_parent})
    for sec in doc.findall(nodes.section):
        t0 = sec[0].astext().split()[0] if len(sec) and sec[0].astext().split() else ""
        if t0.startswith("tb"):
            p_ = sec.parent
            while p_ is not None and not (isinstance(p_, nodes.container) and "mv-titled" in p_.get("classes", [])):
                p_ = p_.parent
            if p_ is None:
                ctx.violation("titled:section-escaped-directive", f"section {t0} created inside a match_titles directive is not below that directive's node", case, detail)
            ctx.count("titled_sections_checked")
    for m in seen:
        if m.startswith(("tb", "ts")):
            continue
        if m not in exp_parent:
            key = "rubric:nested-heading-opened-section" if m in rubrics else "parent:unexpected-section"
            ctx.violation(key, f"unexpected section titled {m}", case, detail)
    # --- rubrics
    rb = {}
    for r in doc.findall(nodes.rubric):
        t = r.astext().split()
        if t:
            rb[t[0]] = r
    for m, L in rubrics.items():
        if m in seen:
            continue
        r = rb.get(m)
        if r is None:
            ctx.violation("rubric:missing", f"nested heading {m} produced no rubric", case, detail)
        else:
            if r.get("level") != L:
                ctx.violation("rubric:level", f"rubric {m} records level {r.get('level')!r}, heading level is {L}", case, detail)
            if isinstance(r.parent, (nodes.document, nodes.section)):
                ctx.violation("rubric:escaped-container", f"rubric {m} is a direct child of {r.parent.tagname}", case, detail)
            ctx.count("rubrics_checked")
    # --- where every marker ended up (section membership) and document order
    top_seq = []  # (marker, expected enclosing section marker)
    cur = "document"
    ev_iter = {m for _, m, _ in events}
    for m in order:
        if m in ev_iter:
            cur = m
        top_seq.append((m, cur))
    pos = {}
    for i, t in enumerate(doc.findall(nodes.Text)):
        if isinstance(t.parent, nodes.literal) and isinstance(t.parent.parent.parent, nodes.field_body):
            continue  # the front-matter value as shown in the field list
        for w in str(t).split():
            if w[:2] in ("hd", "rb", "pp", "ip", "ih", "iq", "fm") and w not in pos:
                pos[w] = (i, t)
    last = -1
    for m, sec_m in top_seq:
        if m not in pos:
            ctx.violation("content:marker-lost", f"marker {m} does not occur in the doctree", case, detail)
            continue
        i, t = pos[m]
        if i < last:
            ctx.violation("content:order", f"marker {m} occurs out of source order", case, detail)
        last = i
        n = t.parent
        while n is not None and not isinstance(n, (nodes.section, nodes.document)):
            n = n.parent
        got = "document" if isinstance(n, nodes.document) else n[0].astext().split()[0]
        if got != sec_m:
            ctx.violation("content:wrong-section", f"marker {m} is inside section {got}, expected {sec_m}", case, {**detail, "observed_sections": seen})
    # --- warnings
    # [myst.header] warnings of headings inside a match_titles directive belong to that directive's own little hierarchy: not modelled
    tb_lines = {l for m_, l in hline.items() if m_.startswith("tb")}
    recs = [w for w in drive.split_warnings(wtext) if HDR.search(w["msg"]) and not (w["line"] in tb_lines and w["src"].endswith("doc.md"))]
    got_w = sorted(((w["msg"].split(" [myst.header]")[0], w["line"] if hline_known(hline, w) else None) for w in recs), key=repr)
    exp_w = sorted(((msg, hline.get(m)) for m, msg in exp_warns), key=repr)
    if sorted(g[0] for g in got_w) != sorted(e[0] for e in exp_w):
        ctx.violation("warning:count-or-text", f"[myst.header] warnings {[g[0] for g in got_w]}, model {[e[0] for e in exp_w]}", case, {**detail, "stream": wtext})
    else:
        gl = sorted((t, l) for t, l in got_w if l is not None)
        el = sorted((t, l) for t, l in exp_w if l is not None)
        if not files and gl != el:
            ctx.violation("warning:line", f"[myst.header] warning lines {gl}, headings are at {el}", case, {**detail, "stream": wtext})
    nmsg = sum(1 for sm in doc.findall(nodes.system_message) if "[myst.header]" in sm.astext() and not (sm.get("line") in tb_lines and str(sm.get("source", "")).endswith("doc.md")))
    if nmsg != len(exp_warns):
        ctx.violation("warning:node-count", f"{nmsg} [myst.header] system_message nodes, model {len(exp_warns)}", case, detail)
    other = [w for w in drive.split_warnings(wtext) if not HDR.search(w["msg"]) and not ("Directive 'include' failed" in w["msg"] and any(it[0] == "inc" and len(it) > 5 and it[5] for it in case.get("items", [])))]
    if other:
        ctx.violation("warning:unexpected-other", f"unexpected other warning: {other[0]['msg'][:120]}", case, {**detail, "stream": wtext})
    ctx.count("sections_checked", len(exp_parent))
    ctx.count("warnings_expected", len(exp_warns))
    ctx.count("cases_compared")


def hline_known(hline, w):
    return w["src"].endswith("doc.md")


# ------------------------------------------------------------------------------------------- workload


def run_shard(ctx):
    R = ctx.rng
    quick = ctx.tier == "quick"
    maxlen = 5 if quick else 7
    idx = n = 0
    complete = True
    for ln in range(1, maxlen + 1):
        for seq in itertools.product(range(1, 7), repeat=ln):
            idx += 1
            if idx % ctx.nshards != ctx.shard:
                continue
            eval_case(ctx, {"kind": "levels", "items": [["h", L, "atx"] for L in seq], **({"front_title": True} if idx % 7 == 3 else {})})
            n += 1
            if (n & 0x3FF) == 0 and ctx.out_of_time():
                complete = False
                break
        if not complete:
            break
    ctx.case(n=n)
    ctx.enumerated(max(0, n - 1))
    ctx.subrun("exhaustive_level_sequences", exhaustive=complete, max_length=maxlen, cases=n)
    ctx.sample({"kind": "levels", "items": [["h", 2, "atx"], ["h", 4, "atx"], ["h", 1, "atx"]]})
    # the same file included two to four times
    for i in range(150 if quick else 6000):
        case = {"kind": "repeat", "pre": [R.randint(1, 4) for _ in range(R.randint(0, 2))], "file": [R.randint(1, 6) for _ in range(R.randint(1, 3))], "times": R.randint(2, 4), "offset": R.choice([0, 0, 1, 2, 3]),
                "between": R.random() < 0.3}
        eval_case(ctx, case)
        ctx.case(("repeat", repr(case)), True)
        if i == 0:
            ctx.sample(case)
    # random: interleaved / nested / includes
    n_r = 1500 if quick else 60000
    for i in range(n_r):
        items = []
        for _ in range(R.randint(2, 14 if R.random() < 0.8 else 40)):
            x = R.random()
            if x < 0.45:
                L = R.randint(1, 6)
                items.append(["h", L, R.choice(["atx", "setext"]) if L <= 2 else "atx"])
            elif x < 0.65:
                items.append(["c", R.choice(CONTAINERS), R.randint(1, 6), R.random() < 0.5])
            elif x < 0.70:
                items.append(["t", [R.randint(1, 6) for _ in range(R.randint(1, 3))]])
            elif x < 0.74:
                items.append(["s", [R.randint(1, 6) for _ in range(R.randint(1, 3))]])
            elif x < 0.77:
                items.append(["ri", R.choice(["para", "quote-heading", "list"])])
            elif x < 0.8:
                items.append(["p"])
            elif x < 0.92:
                items.append(["b", R.choice(["hr", "code", "list", "target", "comment", "fence", "table", "break"])])
            else:
                items.append(["inc", R.choice([0, 0, 1, 2, 3, 5]), [R.randint(1, 6) for _ in range(R.randint(1, 3))], R.random() < 0.5,
                              [R.choice([0, 0, 1, 2]), [R.randint(1, 6) for _ in range(R.randint(0, 2))]] if R.random() < 0.4 else None, R.random() < 0.2])
                if items[-1][5]:
                    items[-1][4] = None
        case = {"kind": "mixed", "items": items}
        if R.random() < 0.12:
            case["front_title"] = True
        eval_case(ctx, case)
        nh = sum(1 for it in items if it[0] in ("h", "c", "inc"))
        ctx.case(("mixed", repr(items)), nh >= 2)
        if any(it[0] == "inc" for it in items):
            ctx.count("with_include")
        if any(it[0] == "c" for it in items):
            ctx.count("with_nested_heading")
        if i == 0:
            ctx.sample(case)
        if (i & 0x3F) == 0 and ctx.out_of_time():
            break


def finalize(m, tier):
    c = m["counters"]
    for k, lo in (("cases_compared", 5000), ("sections_checked", 20000), ("warnings_expected", 2000), ("rubrics_checked", 300), ("with_include", 50), ("with_nested_heading", 200), ("repeat_cases", 500), ("repeat_warnings_expected", 500)):
        if c.get(k, 0) < lo:
            m["inconclusive"].append(f"monitor observed only {c.get(k, 0)} '{k}' events (< {lo})")
    mon.require_reach(m, ANCHORS)
