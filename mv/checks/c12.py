"""C12 - Sphinx cross-document links resolve to the right URI or warn exactly once.

URI/text/warning model over generated multi-document projects, real html builds.  The generator owns the project
description (directory tree, titles, headings with duplicates, labels, extra files) and computes for every link the
expected URI independently (posix relpath of the target page from the source page + '#' + the id read off the target
section node itself), the expected text and the expected warnings; the resolved doctrees and the log must agree.
"""

from __future__ import annotations

import os
import posixpath
import re

from .. import core, drive, mon
from .c10 import slug0, uniq

PROP = "C12"
RULE = (
    "projects of 4-8 documents in a random directory tree (depth <= 3) with titles, headings incl. duplicate titles, labels "
    "before headings and paragraphs, extra non-document files; in every document links to the other documents in the spellings "
    "{t.md, ./t.md, ../x/t.md, /abs/t.md, no extension, <project:...>, [..](project:..), t.md#slug, #label, <path:...>, path to "
    "a non-document file, missing document, missing slug, missing label} x {explicit text with nested markup, empty text}; "
    "page links after relative-docs includes; one latex build per shard (every \\hyperref names a \\label, links to a label of the root document); "
    "distinct by hash of the project; non-trivial = the project has documents in >= 2 directories"
)
ASSUME = [
    "html builder; the expected URI is posixpath.relpath(target.html, dirname(source.html)) [+ '#' + id], where id is read from the n-th section with that title in the target's own doctree",
    "an empty-text link to a label is only generated for labels in front of a heading (Sphinx needs a title to name a label)",
]
SHARDS = {"quick": 16, "thorough": 16}
BUDGET_S = {"quick": 50, "thorough": 1200}
ANCHORS = ["SphinxRenderer.render_link_unknown", "SphinxRenderer.render_link_project", "SphinxRenderer.render_link_path", "MystReferenceResolver.resolve_myst_ref_doc", "MystReferenceResolver.resolve_myst_ref_any",
           "MystReferenceResolver._resolve_doc_nested", "MystReferenceResolver._resolve_ref_nested", "MystReferenceResolver.log_warning"]


def setup(ctx):
    mon.start_reach(ctx)


def teardown(ctx):
    mon.finish_reach(ctx, ANCHORS)


DIRS = ["", "a", "a/b", "c", "a/b/d", "c/e"]
HEADS = ["Alpha Beta", "Same", "Same", "Gamma `code`", "Ünï cödé", "Delta!", "Same 1", "Same 2", "Same", "same-1", "Maße und Größe", "Οδός Ερμής", "ﬁne ligature", "ǅungla İstanbul"]  # duplicates next to titles that look like suffixed duplicates


def make_project(R):
    nd = R.randint(4, 8)
    dirs = R.sample(DIRS, R.randint(2, 4))
    if "" not in dirs and R.random() < 0.7:
        dirs[0] = ""
    docs = []
    for k in range(nd):
        d = R.choice(dirs)
        name = posixpath.join(d, f"doc{k}") if d else f"doc{k}"
        heads = [R.choice(HEADS) for _ in range(R.randint(1, 4) if R.random() < 0.7 else R.randint(4, 7))]
        docs.append({"name": name, "title": f"Title of D{k}", "heads": heads, "label_h": R.choice([f"lblh-{k}", f"LblH-{k}", f"LBLH_{k}"]), "label_p": R.choice([f"lblp-{k}", f"Lbl.P-{k}"]), "label_on": R.randrange(len(heads))})
    extra = [posixpath.join(R.choice(dirs), f"data{j}.txt").lstrip("/") for j in range(2)]
    if R.random() < 0.7:
        extra.append(posixpath.join(R.choice(docs)["name"], "inside.txt"))  # a directory with the same name as a document
    return {"docs": docs, "extra": extra, "anchors": R.choice([2, 3])}


# explicit link texts: nested markup of several kinds (an image with an empty alt has no text at all, yet is explicit content)
XT = {"em": "*em* txt", "img": "![](badge.png)", "imgalt": "![alt txt](badge.png)", "code": "`code txt`", "mixed": "**b** ![](badge.png) txt"}
XT_KINDS = ["em", "em", "img", "imgalt", "code", "mixed"]


def explicit_kept(node, xt):
    """Is the explicit text of variant ``xt`` present below ``node`` with its nested markup?"""
    from docutils import nodes

    imgs = [i for i in node.findall(nodes.image) if "badge.png" in i.get("uri", "")]
    if xt == "em":
        return bool(list(node.findall(nodes.emphasis))) and "txt" in node.astext()
    if xt == "img":
        return len(imgs) == 1
    if xt == "imgalt":
        return len(imgs) == 1 and imgs[0].get("alt") == "alt txt"
    if xt == "code":
        return any(l.astext() == "code txt" for l in node.findall(nodes.literal))
    return bool(list(node.findall(nodes.strong))) and len(imgs) == 1 and "txt" in node.astext()


def rel(frm_doc, to_path):
    return posixpath.relpath(to_path, posixpath.dirname(frm_doc) or ".")


def build_files(P, R):
    """-> files, links: per document list of dicts (marker, line, kind, expectation...)."""
    files = {}
    links = {}
    docs = P["docs"]
    for di, D in enumerate(docs):
        L = [f"# {D['title']}", ""]
        for hi, h in enumerate(D["heads"]):
            if hi == D["label_on"]:
                L += [f"({D['label_h']})="]
            L += [f"## {h}", "", f"text under {h}", ""]
        L += [f"({D['label_p']})=", f"labelled paragraph of {D['name']}", ""]
        mine = []
        others = [T for T in docs if T is not D]
        n = 0

        def add(md, exp):
            nonlocal n
            n += 1
            mk = f"LK{di}x{n}"
            L.extend([f"{mk} {md} end", ""])
            exp.update(marker=mk, line=len(L) - 1, md=md)
            if exp.get("explicit"):
                exp["xt"] = next((k for k in XT_KINDS if md.startswith("[" + XT[k] + "]")), "em")
            mine.append(exp)

        for T in R.sample(others, min(len(others), 3)):
            r = rel(D["name"], T["name"])
            xt = R.choice(XT_KINDS)
            explicit = XT[xt]
            sp = R.sample(["md", "dotslash", "abs", "abs_noext", "abs_noext_text", "noext", "noext_text", "dot_noext", "project_auto", "project_text", "slug", "slug_empty", "label", "label_empty", "label_p", "empty",
                           "project_slug", "project_slug_auto", "abs_slug", "project_label"], 9)
            for s in sp:
                if s == "md":
                    add(f"[{explicit}]({r}.md)", {"kind": "doc", "to": T["name"], "explicit": True})
                elif s == "empty":
                    add(f"[]({r}.md)", {"kind": "doc", "to": T["name"], "explicit": False, "text": T["title"]})
                elif s == "dotslash":
                    add(f"[{explicit}](./{r}.md)", {"kind": "doc", "to": T["name"], "explicit": True})
                elif s == "abs":
                    add(f"[{explicit}](/{T['name']}.md)", {"kind": "doc", "to": T["name"], "explicit": True})
                elif s == "noext":
                    add(f"[]({r})", {"kind": "doc", "to": T["name"], "explicit": False, "text": T["title"]})
                elif s == "noext_text":
                    add(f"[{explicit}]({r})", {"kind": "doc", "to": T["name"], "explicit": True})
                elif s == "dot_noext" and not r.startswith(".."):
                    add(f"[](./{r})", {"kind": "doc", "to": T["name"], "explicit": False, "text": T["title"]})
                elif s == "abs_noext":
                    add(f"[](/{T['name']})", {"kind": "doc", "to": T["name"], "explicit": False, "text": T["title"]})
                elif s == "abs_noext_text":
                    add(f"[{explicit}](/{T['name']})", {"kind": "doc", "to": T["name"], "explicit": True})
                elif s == "project_auto":
                    add(f"<project:{r}.md>", {"kind": "doc", "to": T["name"], "explicit": False, "text": T["title"]})
                elif s == "project_text":
                    add(f"[{explicit}](project:{r}.md)", {"kind": "doc", "to": T["name"], "explicit": True})
                elif s in ("slug", "slug_empty"):
                    hi = R.randrange(len(T["heads"]))
                    slugs = uniq([slug0(T["title"])] + [slug0(h) for h in T["heads"]])
                    sl = slugs[hi + 1]
                    if s == "slug":
                        add(f"[{explicit}]({r}.md#{sl})", {"kind": "slug", "to": T["name"], "head": hi, "explicit": True})
                    else:
                        add(f"[]({r}.md#{sl})", {"kind": "slug", "to": T["name"], "head": hi, "explicit": False, "text": T["heads"][hi].replace("`", "")})
                elif s in ("project_slug", "project_slug_auto", "abs_slug"):
                    hi = R.randrange(len(T["heads"]))
                    sl = uniq([slug0(T["title"])] + [slug0(h) for h in T["heads"]])[hi + 1]
                    if s == "project_slug":
                        add(f"[{explicit}](project:{r}.md#{sl})", {"kind": "slug", "to": T["name"], "head": hi, "explicit": True})
                    elif s == "project_slug_auto":
                        add(f"<project:{r}.md#{sl}>", {"kind": "slug", "to": T["name"], "head": hi, "explicit": False, "text": T["heads"][hi].replace("`", "")})
                    else:
                        add(f"[](/{T['name']}.md#{sl})", {"kind": "slug", "to": T["name"], "head": hi, "explicit": False, "text": T["heads"][hi].replace("`", "")})
                elif s == "project_label":
                    add(f"<project:#{T['label_h']}>", {"kind": "label", "to": T["name"], "label": T["label_h"], "head": T["label_on"], "explicit": False, "text": T["heads"][T["label_on"]].replace("`", "")})
                elif s == "label":
                    add(f"[{explicit}](#{T['label_h']})", {"kind": "label", "to": T["name"], "label": T["label_h"], "head": T["label_on"], "explicit": True})
                elif s == "label_empty":
                    add(f"[](#{T['label_h']})", {"kind": "label", "to": T["name"], "label": T["label_h"], "head": T["label_on"], "explicit": False, "text": T["heads"][T["label_on"]].replace("`", "")})
                elif s == "label_p":
                    add(f"[{explicit}](#{T['label_p']})", {"kind": "label_p", "to": T["name"], "label": T["label_p"], "explicit": True})
        # self link with anchor
        slugs = uniq([slug0(D["title"])] + [slug0(h) for h in D["heads"]])
        add(f"[*em* txt]({posixpath.basename(D['name'])}.md#{slugs[1]})", {"kind": "slug", "to": D["name"], "head": 0, "explicit": True, "self": True})
        # downloads
        x = R.choice(P["extra"])
        rx = rel(D["name"], x)
        add(f"[{XT[R.choice(XT_KINDS)]}]({rx})", {"kind": "download", "file": x, "explicit": True})
        add(f"<path:{rx}>", {"kind": "download", "file": x, "explicit": False})
        # missing
        add(f"[{XT[R.choice(XT_KINDS)]}](nosuch-{di}-a.md)", {"kind": "missing", "needle": f"nosuch-{di}-a", "explicit": True})
        add(f"[*em* txt](project:nosuch-{di}-b.md)", {"kind": "missing", "needle": f"nosuch-{di}-b", "explicit": True})
        if others:
            T = R.choice(others)
            add(f"[*em* txt]({rel(D['name'], T['name'])}.md#nosuch-slug-{di})", {"kind": "missing", "needle": f"nosuch-slug-{di}", "explicit": True, "to": T["name"]})
        add(f"[*em* txt](#nosuch-label-{di})", {"kind": "missing", "needle": f"nosuch-label-{di}", "explicit": True})
        # a snippet that lives in the project root and is written relative to it, included with :relative-docs: <top directory>/
        deep = [T for T in others if "/" in T["name"]]
        if deep and R.random() < 0.6:
            T = R.choice(deep)
            prefix = T["name"].split("/")[0] + "/"
            hi = R.randrange(len(T["heads"]))
            sl = uniq([slug0(T["title"])] + [slug0(h) for h in T["heads"]])[hi + 1]
            S = []
            for j, (md, exp) in enumerate([
                (f"[]({T['name']}.md)", {"kind": "doc", "to": T["name"], "explicit": False, "text": T["title"]}),
                (f"[]({T['name']})", {"kind": "doc", "to": T["name"], "explicit": False, "text": T["title"]}),
                (f"[*em* txt]({T['name']})", {"kind": "doc", "to": T["name"], "explicit": True, "xt": "em"}),
                (f"[*em* txt]({T['name']}.md#{sl})", {"kind": "slug", "to": T["name"], "head": hi, "explicit": True, "xt": "em"}),
            ]):
                mk = f"LK{di}x{900 + j}"
                S += [f"{mk} {md} end", ""]
                exp.update(marker=mk, line=2 * j + 1, loc_file=f"inc_{di}.md", md=md + " (in a root-level snippet included with :relative-docs: " + prefix + ")", via_include=True)
                mine.append(exp)
            files[f"inc_{di}.md"] = "\n".join(S)
            L += ["```{include} " + rel(D["name"], f"inc_{di}.md"), f":relative-docs: {prefix}", "```", ""]
            # ... and the page's own links written AFTER the include are still relative to the page (for a root-level page they start with the prefix)
            r = rel(D["name"], T["name"])
            add(f"[]({r}.md)", {"kind": "doc", "to": T["name"], "explicit": False, "text": T["title"], "after_include": True})
            add(f"[*em* txt]({r}.md#{sl})", {"kind": "slug", "to": T["name"], "head": hi, "explicit": True, "xt": "em", "after_include": True})
            add(f"<project:{r}.md>", {"kind": "doc", "to": T["name"], "explicit": False, "text": T["title"], "after_include": True})
            for e in mine[-3:]:
                e["prefixed"] = r.startswith(prefix)
        # a snippet that lives next to another document and is written relative to THAT directory, included with a prefix that matches plain file names
        # ('doc'); afterwards the page's own links to its own directory (they start with the same prefix) are still the page's
        far = [T for T in others if posixpath.dirname(T["name"]) != posixpath.dirname(D["name"])]
        if far and R.random() < 0.5:
            T = R.choice(far)
            tdir = posixpath.dirname(T["name"])
            hi = R.randrange(len(T["heads"]))
            sl = uniq([slug0(T["title"])] + [slug0(h) for h in T["heads"]])[hi + 1]
            tb = posixpath.basename(T["name"])
            S = []
            for j, (md, exp) in enumerate([
                (f"[]({tb}.md)", {"kind": "doc", "to": T["name"], "explicit": False, "text": T["title"]}),
                (f"[*em* txt]({tb}.md#{sl})", {"kind": "slug", "to": T["name"], "head": hi, "explicit": True, "xt": "em"}),
            ]):
                mk = f"LK{di}x{950 + j}"
                S += [f"{mk} {md} end", ""]
                exp.update(marker=mk, line=2 * j + 1, loc_file=f"inc2_{di}.md", md=md + " (in a snippet next to the target, included with :relative-docs: doc)", via_include=True)
                mine.append(exp)
            files[posixpath.join(tdir, f"inc2_{di}.md")] = "\n".join(S)
            L += ["```{include} " + rel(D["name"], posixpath.join(tdir, f"inc2_{di}.md")), ":relative-docs: doc", "```", ""]
            add(f"[*em* txt]({posixpath.basename(D['name'])}.md#{slugs[1]})", {"kind": "slug", "to": D["name"], "head": 0, "explicit": True, "self": True, "after_include": True, "prefixed": True})
            sib = [T2 for T2 in others if posixpath.dirname(T2["name"]) == posixpath.dirname(D["name"])]
            if sib:
                T2 = R.choice(sib)
                add(f"[]({posixpath.basename(T2['name'])}.md)", {"kind": "doc", "to": T2["name"], "explicit": False, "text": T2["title"], "after_include": True, "prefixed": True})
                add(f"<project:{posixpath.basename(T2['name'])}.md>", {"kind": "doc", "to": T2["name"], "explicit": False, "text": T2["title"], "after_include": True, "prefixed": True})
        files[D["name"] + ".md"] = "\n".join(L) + "\n"
        links[D["name"]] = mine
    toc = ["# Index", "", "```{toctree}"] + [d["name"] for d in docs] + ["```", ""]
    files["index.md"] = "\n".join(toc)
    for x in P["extra"]:
        files[x] = "payload of " + x + "\n"
    return files, links


def judge(ctx, case, b, P, links, files, recs, stage):
    """Compare every generated link of the project with the resolved doctrees; ``recs`` are the myst.xref_missing records of this stage."""
    from docutils import nodes

    trees = {}
    for D in P["docs"]:
        trees[D["name"]] = b.resolved(D["name"]) if stage == "full" else b._trees[D["name"]]
    secs = {}
    for D in P["docs"]:
        secs[D["name"]] = [s for s in b.doctree(D["name"]).findall(nodes.section)]
    used = set()
    pre = "" if stage == "full" else stage + ":"
    for D in P["docs"]:
        tree = trees[D["name"]]
        paras = {}
        for p in tree.findall(nodes.paragraph):
            m = re.match(r"(LK\d+x\d+) ", p.astext())
            if m:
                paras[m.group(1)] = p
        for lk in links[D["name"]]:
            p = paras.get(lk["marker"])
            detail = {"stage": stage, "source_doc": D["name"], "link": lk, "paragraph": p.pformat()[:1200] if p is not None else None, "project": {"docs": [d["name"] for d in P["docs"]], "extra": P["extra"]}, "log": b.norm_warnings()[-1500:],
                      "mutation": case.get("mutation")}
            if p is None:
                ctx.violation(pre + "link:paragraph-lost", f"paragraph {lk['marker']} not found in the resolved doctree", case, detail)
                continue
            refs = [n for n in p.findall(lambda n: isinstance(n, nodes.reference) or n.tagname in ("download_reference", "pending_xref"))]
            k = lk["kind"]
            ctx.count("links_checked")
            ctx.count("links:" + k)
            if lk.get("after_include"):
                ctx.count("links_after_relative_docs_include" + (":prefixed" if lk.get("prefixed") else ""))
            if stage != "full":
                ctx.count("links_checked_after_rebuild")
            if k in ("doc", "slug", "label", "label_p"):
                if len(refs) != 1 or not isinstance(refs[0], nodes.reference):
                    ctx.violation(f"{pre}resolve:{k}:no-reference", f"{lk['md']} produced {[r.tagname for r in refs]} instead of one reference", case, detail)
                    continue
                r = refs[0]
                # the page URI between two documents is the builder's business (html: a/b.html, dirhtml: a/b/): take it from Sphinx, check it against the html rule
                page = b.app.builder.get_relative_uri(D["name"], lk["to"])
                if b.builder == "html" and page != rel(D["name"] + ".html", lk["to"] + ".html"):
                    ctx.count("model_disagrees_with_sphinx_relative_uri")
                if k == "doc":
                    exp_uri, exp_id = page, None
                elif k in ("slug", "label"):
                    tsecs = secs[lk["to"]]
                    sec = tsecs[lk["head"] + 1] if len(tsecs) > lk["head"] + 1 else None
                    if sec is None:
                        ctx.count("target_section_not_located")
                        continue
                    ids = sec["ids"]
                    exp_id = ids
                    exp_uri = page
                else:
                    # ids of the labelled paragraph itself, read from the target document's doctree
                    tp = next((q for q in b.doctree(lk["to"]).findall(nodes.paragraph) if q.astext().startswith("labelled paragraph of")), None)
                    exp_id, exp_uri = (list(tp["ids"]) if tp is not None else [nodes.make_id(lk["label"])]), page
                got_uri, got_id = r.get("refuri"), r.get("refid")
                if lk.get("self"):
                    ok = (got_id in exp_id) if got_id else (got_uri and got_uri.startswith("#") and got_uri[1:] in exp_id)
                    if not ok:
                        ctx.violation(pre + "resolve:self-anchor", f"{lk['md']} has refid={got_id!r} refuri={got_uri!r}; the heading's ids are {exp_id}", case, detail)
                else:
                    if got_uri is None:
                        ctx.violation(f"{pre}resolve:{k}:no-uri", f"{lk['md']} has no refuri (refid={got_id!r})", case, detail)
                        continue
                    upage, _, ufrag = got_uri.partition("#")
                    if upage != exp_uri:
                        ctx.violation(f"{pre}resolve:{k}:wrong-page", f"{lk['md']} in {D['name']} points to {got_uri!r}; the target page is {exp_uri!r} relative to the source page", case, detail)
                    elif exp_id is None and ufrag:
                        ctx.violation(f"{pre}resolve:{k}:unexpected-fragment", f"{lk['md']} points to {got_uri!r}", case, detail)
                    elif exp_id is not None and ufrag not in exp_id:
                        ctx.violation(f"{pre}resolve:{k}:wrong-node", f"{lk['md']} points to fragment {ufrag!r}; the target node's ids are {exp_id}", case, detail)
                    else:
                        ctx.count("uris_correct")
                # text
                if lk["explicit"]:
                    if not explicit_kept(r, lk.get("xt", "em")):
                        ctx.violation(f"{pre}text:{k}:explicit-markup-lost", f"explicit text of {lk['md']} rendered as {r.astext()!r} without its nested markup", case, detail)
                elif r.astext() != lk["text"]:
                    ctx.violation(f"{pre}text:{k}:implicit", f"{lk['md']} shows {r.astext()!r}, the target's title is {lk['text']!r}", case, detail)
            elif k == "download":
                dl = [n for n in refs if n.tagname == "download_reference"]
                if len(dl) != 1:
                    ctx.violation(pre + "download:not-a-download", f"{lk['md']} produced {[r.tagname for r in refs]}", case, detail)
                    continue
                n = dl[0]
                fn = n.get("filename")
                if not fn or not os.path.exists(os.path.join(b.out, "_downloads", fn)):
                    ctx.violation(pre + "download:file-not-copied", f"{lk['md']}: download file {fn!r} was not copied (reftarget {n.get('reftarget')!r})", case, detail)
                elif open(os.path.join(b.out, "_downloads", fn)).read() != "payload of " + lk["file"] + "\n":
                    ctx.violation(pre + "download:wrong-file", f"{lk['md']}: downloaded file is not {lk['file']}", case, detail)
                else:
                    ctx.count("downloads_correct")
                if lk["explicit"] and not explicit_kept(n, lk.get("xt", "em")):
                    ctx.violation(pre + "text:download:explicit-lost", f"explicit text of {lk['md']} lost: {n.astext()!r}", case, detail)
            elif k == "missing":
                if lk.get("by_location"):
                    # a link whose target was removed by the mutation: identified by its position
                    hits = [i for i, rr in enumerate(recs) if i not in used and re.search(re.escape(lk.get("loc_file") or (D["name"] + ".md")) + ":(?:" + str(lk["line"]) + ("|" + str(lk["line"] + 1) if lk.get("loc_file") else "") + ")$", str(rr["location"] or ""))]  # lines inside included files: C04's business (known +1)
                else:
                    hits = [i for i, rr in enumerate(recs) if lk["needle"] in rr["msg"] and i not in used]
                if len(hits) != 1:
                    ctx.violation(pre + "missing:warning-count", f"{len(hits)} myst.xref_missing warnings name {lk.get('needle') or lk['md']!r} (expected exactly one)", case, detail)
                else:
                    used.add(hits[0])
                    loc = recs[hits[0]]["location"] or ""
                    m = re.search(r":(\d+)$", str(loc))
                    if not (lk.get("loc_file") or (D["name"] + ".md")) in str(loc) or (m and int(m.group(1)) != lk["line"] and not lk.get("loc_file")):
                        ctx.violation(pre + "missing:warning-location", f"the warning for {lk['md']} is located at {loc!r}; the link is on line {lk['line']} of {D['name']}.md", case, detail)
                    else:
                        ctx.count("missing_warned_once_at_line")
                if lk["explicit"] and not explicit_kept(p, lk.get("xt", "em")):
                    ctx.violation(pre + "missing:text-lost", f"the text of the unresolvable link {lk['md']} was not rendered: {p.astext()!r}", case, detail)
    extra = [rr for i, rr in enumerate(recs) if i not in used]
    if extra:
        ctx.violation(pre + "warning:spurious-xref-missing", f"{len(extra)} myst.xref_missing warnings that no generated missing link explains: {extra[0]['msg'][:120]} at {extra[0]['location']}", case,
                      {"stage": stage, "mutation": case.get("mutation"), "log": b.norm_warnings()[-2000:], "files": {k: v[:600] for k, v in files.items() if k.endswith('.md')}})


def mutate_project(P, files, links, mutation, ti):
    """-> (changed files, P2, links2): the project after removing the anchors of / deleting document ti; links that pointed there become 'missing'."""
    import copy

    T = P["docs"][ti]
    P2 = copy.deepcopy(P)
    links2 = copy.deepcopy(links)
    changes = {}
    if mutation == "strip-anchors":
        out = []
        for l in files[T["name"] + ".md"].split("\n"):
            if l.startswith("## "):
                l = "**" + l[3:] + "**"
            elif l == f"({T['label_h']})=":
                l = "label removed"
            out.append(l)
        changes[T["name"] + ".md"] = "\n".join(out)
        gone = ("slug", "label")
    else:  # delete-doc
        changes[T["name"] + ".md"] = None
        changes["index.md"] = "\n".join(["# Index", "", "```{toctree}"] + [d["name"] for d in P["docs"] if d is not T] + ["```", ""])
        P2["docs"] = [d for d in P2["docs"] if d["name"] != T["name"]]
        links2.pop(T["name"])
        gone = ("slug", "label", "label_p", "doc")
    for dn, ls in links2.items():
        for lk in ls:
            if lk.get("to") == T["name"] and lk["kind"] in gone + (("missing",) if mutation == "delete-doc" else ()):
                lk.update(kind="missing", by_location=True, was=lk["kind"])
    return changes, P2, links2


def eval_case(ctx, case):
    import random

    if case.get("kind") == "latex":
        return eval_single_file_builder(ctx, case)
    R = random.Random(case["seed"])
    P = make_project(R)
    files, links = build_files(P, R)
    b = drive.SphinxBuild(dict(files), conf={"myst_heading_anchors": P["anchors"], "exclude_patterns": ["inc_*.md", "**/inc2_*.md", "inc2_*.md"]}, builder=case.get("builder", "html"), parallel=case.get("parallel", 0))
    try:
        try:
            b.build()
        except Exception as e:  # noqa: BLE001
            sig = core.exc_signature(e)
            ctx.violation(f"build-raises:{sig['type']}:{sig['myst'] or sig['inner']}", f"the build raised {sig['type']}: {sig['msg'][:200]}", case, {**sig, "files": {k: v[:400] for k, v in files.items()}})
            return False
        ctx.count("projects_built")
        if case.get("parallel"):
            ctx.count("projects_built_parallel")
        # the warning STREAM of the build (what the user sees, after Sphinx' handler-level filters); resolving doctrees again below would log once more
        recs = [r for r in b.stream_records() if r["type"] == "myst" and r["subtype"] == "xref_missing"]
        ctx.count("stream_vs_records_equal" if len(recs) == len([r for r in b.records if r["type"] == "myst" and r["subtype"] == "xref_missing"]) else "stream_vs_records_differ")
        judge(ctx, case, b, P, links, files, recs, "full")
        mutation = case.get("mutation")
        if mutation:
            ti = case["target"] % len(P["docs"])
            changes, P2, links2 = mutate_project(P, files, links, mutation, ti)
            steps = [("rebuild", changes, P2, links2)]
            if case.get("restore"):
                steps.append(("restored", {k: files[k] for k in changes}, P, links))
            for stage, ch, Px, lx in steps:
                try:
                    b.rebuild(ch)
                    b._trees = b.resolve_all([d["name"] for d in Px["docs"]])
                except Exception as e:  # noqa: BLE001
                    sig = core.exc_signature(e)
                    ctx.violation(f"{stage}:build-raises:{sig['type']}:{sig['myst'] or sig['inner']}", f"the incremental build after {mutation} raised {sig['type']}: {sig['msg'][:200]}", case, {**sig, "changes": {k: (v or "")[:400] for k, v in ch.items()}})
                    return False
                ctx.count("incremental_builds")
                ctx.count("incremental:" + mutation + ":" + stage)
                recs2 = [r for r in b.stream_records(b.resolve_warnings) if r["type"] == "myst" and r["subtype"] == "xref_missing"]
                judge(ctx, case, b, Px, lx, {**files, **{k: v for k, v in ch.items() if v is not None}}, recs2, stage)
        return len({posixpath.dirname(d["name"]) for d in P["docs"]}) >= 2
    finally:
        b.close()


def eval_single_file_builder(ctx, case):
    """Builders that merge all pages into one document (latex, texinfo-like): a page's links are still the links OF THAT PAGE. The pages get
    links to a label that lives in the ROOT document; in the written LaTeX every \\hyperref must name a \\label that exists."""
    import glob
    import random

    R = random.Random(case["seed"])
    P = make_project(R)
    files, links = build_files(P, R)
    files["index.md"] += "\n(root-label)=\n## Root Section\n\ntext of the root section\n"
    for D in P["docs"]:
        files[D["name"] + ".md"] += "\nRL1 [*em* txt](#root-label) RL2 [](#root-label) RL3 <project:#root-label> RL4 [t](/index.md#root-section) end\n"
    b = drive.SphinxBuild(dict(files), conf={"myst_heading_anchors": P["anchors"], "exclude_patterns": ["inc_*.md", "**/inc2_*.md", "inc2_*.md"]}, builder="latex")
    try:
        try:
            b.build()
        except Exception as e:  # noqa: BLE001
            sig = core.exc_signature(e)
            ctx.violation(f"latex:build-raises:{sig['type']}:{sig['myst'] or sig['inner']}", f"the latex build raised {sig['type']}: {sig['msg'][:200]}", case, sig)
            return False
        tex = ""
        for fn in glob.glob(os.path.join(b.out, "*.tex")):
            with open(fn, encoding="utf8") as f:
                tex += f.read()
        labels = set(re.findall(r"\\label\{\\detokenize\{([^}]*)\}\}", tex))
        refs = re.findall(r"\\hyperref\[\\detokenize\{([^}]*)\}\]", tex)
        ctx.count("latex_builds")
        ctx.count("latex_hyperrefs_checked", len(refs))
        dangling = sorted({r for r in refs if r not in labels and "nosuch" not in r})  # (the generated MISSING links keep their fallback target and were warned about)
        if dangling:
            ctx.violation("latex:dangling-hyperref", f"{len(dangling)} \\hyperref targets of the LaTeX output name no \\label: {dangling[:4]}", case, {"labels_sample": sorted(labels)[:20]})
        want = 3 * len(P["docs"])
        got = sum(1 for r in refs if r == "index:root-label")
        if got < want:
            ctx.violation("latex:label-in-root-document", f"{want} links from {len(P['docs'])} pages point at the label of the root document; the LaTeX output has {got} \\hyperref to 'index:root-label'", case, {"refs_sample": sorted(set(refs))[:30]})
        return True
    finally:
        b.close()


def run_shard(ctx):
    R = ctx.rng
    case = {"kind": "latex", "seed": R.getrandbits(48)}
    eval_single_file_builder(ctx, case)
    ctx.case(("latex", case["seed"]), True)
    n = 8 if ctx.tier == "quick" else 400
    for i in range(n):
        case = {"kind": "project", "seed": R.getrandbits(48), "parallel": R.choice([0, 0, 2, 4]), "mutation": R.choice([None, "strip-anchors", "strip-anchors", "delete-doc"]), "target": R.randrange(64), "restore": R.random() < 0.5, "builder": R.choice(["html", "html", "html", "dirhtml"])}
        nt = eval_case(ctx, case)
        ctx.case(("project", case["seed"], case["parallel"], case["mutation"]), bool(nt))
        if i == 0:
            import random

            ctx.sample({"case": case, "project": make_project(random.Random(case["seed"]))})
        if ctx.out_of_time():
            break


def finalize(m, tier):
    c = m["counters"]
    for k, lo in (("projects_built", 40), ("links_checked", 4000), ("uris_correct", 1500), ("downloads_correct", 300), ("missing_warned_once_at_line", 500), ("projects_built_parallel", 10), ("incremental_builds", 20), ("links_checked_after_rebuild", 1000)):
        if c.get(k, 0) < lo:
            m["inconclusive"].append(f"monitor observed only {c.get(k, 0)} '{k}' events (< {lo})")
    for k in ("doc", "slug", "label", "label_p", "download", "missing"):
        if c.get("links:" + k, 0) < 100:
            m["inconclusive"].append(f"only {c.get('links:' + k, 0)} links of kind {k}")
    mon.require_reach(m, ANCHORS)
