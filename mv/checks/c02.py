"""C02 - the doctree is a faithful image of the Markdown token tree.

Reference-model monitor: two independent canonicalisers (mv.canon.T over markdown-it's syntax tree, mv.canon.D over
the doctree before transforms) map both sides into one small algebra; equality of the two forms is exactly "every leaf
once, in order, identical content, containers one-to-one, the named attributes carried over".  Run in strict
CommonMark, GFM and MyST modes, for the docutils and the Sphinx renderer, which must also agree with each other.
"""

from __future__ import annotations

import io
import json
import os
import random
import shutil
import tempfile

from .. import canon, core, drive, mon
from ..gen import doc as G

PROP = "C02"
RULE = (
    "documents: the 649 CommonMark spec examples, the same examples composed into quotes / list items / nested twice / "
    "table cells, and marker-grammar documents restricted to static syntax (no directives, roles, substitutions), in "
    "commonmark_only, gfm_only (linkify rule disabled: linkify-it-py is not importable), MyST-default and random "
    "static-extension subsets, docutils and Sphinx renderer; distinct by hash of (text, config, back end); non-trivial = "
    "canonical form has >= 2 blocks or one container"
)
ASSUME = [
    "link destinations are compared after the documented encodings are undone on both sides (HTML-unescape + percent-unquote)",
    "sections are flattened to heading + following blocks (nesting is C05's business); system_message nodes are ignored",
    "html_image / html_admonition / substitution are not static syntax (C17, C06) and are left out of the extension subsets",
    "the Sphinx renderer is driven with a live BuildEnvironment of an otherwise empty project (links name no existing document)",
]
SHARDS = {"quick": 16, "thorough": 16}
BUDGET_S = {"quick": 45, "thorough": 900}
ANCHORS = ["DocutilsRenderer._render_tokens", "DocutilsRenderer.render_children", "DocutilsRenderer.render_text", "DocutilsRenderer.render_table_row", "DocutilsRenderer.create_highlighted_code_block", "DocutilsRenderer.render_link_url",
           "SphinxRenderer.render_link_unknown", "DocutilsRenderer.render_image", "DocutilsRenderer.render_ordered_list", "mdit.create_md_parser"]

STATIC_EXT = ["amsmath", "attrs_block", "attrs_inline", "colon_fence", "deflist", "dollarmath", "fieldlist", "replacements", "smartquotes", "strikethrough", "tasklist"]
HTML_EXT = STATIC_EXT + ["html_image", "html_admonition"]
SPEC = []
APP = None
TMP = None


def setup(ctx):
    global SPEC, APP, TMP
    SPEC = [ex["markdown"] for ex in G.spec_examples(core.REPO)]
    TMP = tempfile.mkdtemp(prefix="c02_")
    try:
        from sphinx.application import Sphinx
        from sphinx.util.docutils import docutils_namespace, patch_docutils

        with open(os.path.join(TMP, "conf.py"), "w") as f:
            f.write("extensions=['myst_parser']\n")
        with open(os.path.join(TMP, "index.md"), "w") as f:
            f.write("# t\n")
        ctx._ns = docutils_namespace()
        ctx._ns.__enter__()
        ctx._pd = patch_docutils(TMP)
        ctx._pd.__enter__()
        APP = Sphinx(TMP, TMP, TMP + "/_o", TMP + "/_d", "dummy", status=io.StringIO(), warning=io.StringIO())
    except Exception as e:  # noqa: BLE001
        ctx.note_inconclusive(f"could not create a Sphinx application: {e!r}")
    mon.start_reach(ctx)


def teardown(ctx):
    mon.finish_reach(ctx, ANCHORS)
    try:
        ctx._pd.__exit__(None, None, None)
        ctx._ns.__exit__(None, None, None)
    except Exception:  # noqa: BLE001
        pass
    shutil.rmtree(TMP, ignore_errors=True)


def make_config(mode, exts):
    from myst_parser.config.main import MdParserConfig

    if mode == "commonmark":
        return MdParserConfig(commonmark_only=True)
    if mode == "gfm":
        return MdParserConfig(gfm_only=True)
    return MdParserConfig(enable_extensions=exts)


def md_parser(cfg, renderer, mode):
    from myst_parser.parsers.mdit import create_md_parser

    md = create_md_parser(cfg, renderer)
    if mode == "gfm":
        md.disable("linkify")
        md.options["linkify"] = False
    return md


def render_doctree(text, cfg, mode, backend):
    """Doctree before transforms through the named renderer."""
    from docutils.frontend import get_default_settings
    from docutils.utils import new_document

    from myst_parser.mdit_to_docutils.base import DocutilsRenderer
    from myst_parser.mdit_to_docutils.sphinx_ import SphinxRenderer
    from myst_parser.parsers.docutils_ import Parser

    ws = io.StringIO()
    settings = get_default_settings(Parser)
    settings.warning_stream = ws
    settings.halt_level = 5
    settings.report_level = 2
    if backend == "sphinx":
        env = APP.env
        env.temp_data["docname"] = "index"
        env.myst_config = cfg
        settings.env = env
        doc = new_document(os.path.join(TMP, "index.md"), settings=settings)
        md = md_parser(cfg, SphinxRenderer, mode)
    else:
        doc = new_document("doc.md", settings=settings)
        md = md_parser(cfg, DocutilsRenderer, mode)
    md.options["document"] = doc
    md.render(text)
    return doc


def eval_case(ctx, case):
    from markdown_it.renderer import RendererHTML
    from markdown_it.tree import SyntaxTreeNode

    text, mode, exts = case["text"], case["mode"], case.get("exts", [])
    cfg = make_config(mode, exts)
    try:
        md = md_parser(cfg, RendererHTML, mode)
        tc = canon.T(md)
        tform = tc.blocks(SyntaxTreeNode(md.parse(text)))
    except Exception as e:  # noqa: BLE001
        ctx.count("token_side_failed:" + type(e).__name__)
        return False
    if "html_image" in exts or "html_admonition" in exts:
        # with the HTML extensions on, HTML made ONLY of convertible elements becomes images / admonitions (C17 judges that conversion);
        # every other piece of HTML - also one that mixes such an element with text, comments or entities - is still a leaf of this property
        from .c17 import convertible

        def _html(tokens):
            for t in tokens:
                if t.type in ("html_block", "html_inline"):
                    yield t.content
                if t.children:
                    yield from _html(t.children)

        hs = list(_html(md.parse(text)))
        if any(convertible(h, True, True) for h in hs):
            ctx.count("html_extensions:document_with_convertible_html_not_judged")
            return False
        ctx.count("html_extensions:documents_judged")
        ctx.count("html_extensions:html_leaves", len(hs))
    if tc.unknown:
        ctx.count("unknown_token_types")
        for u in set(tc.unknown):
            ctx.count("unknown_token:" + u)
        return False
    forms = {}
    tc_kinds = set()
    for backend in case["backends"]:
        if backend == "sphinx" and APP is None:
            continue
        try:
            doc = render_doctree(text, cfg, mode, backend)
        except Exception as e:  # noqa: BLE001
            ctx.count(f"no_document:{backend}:{type(e).__name__}")
            continue
        dc = canon.D()
        dform = dc.blocks(doc)
        if mode == "gfm":
            # the GFM disallowed-raw-HTML filter deliberately rewrites '<' of some tags (C17's business): undo on both sides
            dform = json.loads(json.dumps(dform).replace("&lt;", "<"))
            tform_cmp = json.loads(json.dumps(tform).replace("&lt;", "<"))
        else:
            tform_cmp = tform
        forms[backend] = dform
        if dc.unknown and ("html_image" in exts or "html_admonition" in exts) and not any(u in tc_kinds for u in dc.unknown):
            # no convertible HTML in this document (checked above), yet the doctree holds a block the token tree has no counterpart for
            ctx.violation("html-leaf:replaced-by-other-node", f"[{mode}/{backend}] with the HTML extensions on, the doctree holds {sorted(set(dc.unknown))} where the token tree has only non-convertible HTML: " + " / ".join(l.strip() for l in doc.pformat()[:300].splitlines()), case, {"token_form": tform, "doctree": doc.pformat()[:1500]})
            continue
        if dc.unknown:
            ctx.count("unknown_doctree_nodes")
            for u in set(dc.unknown):
                ctx.count("unknown_node:" + u)
            continue
        ctx.count(f"compared:{mode}:{backend}")
        if dform != tform_cmp:
            path, a, b = canon.first_diff(tform_cmp, dform)
            ctx.violation(classify(a, b, backend), f"[{mode}/{backend}] token tree and doctree differ at {path}: token side {json.dumps(a, ensure_ascii=False)[:200]}, doctree side {json.dumps(b, ensure_ascii=False)[:200]}", case,
                          {"path": path, "token_side": a, "doctree_side": b, "token_form": tform, "doctree_form": dform})
    if len(forms) == 2 and forms["docutils"] != forms["sphinx"] and forms["docutils"] == tform:
        pass  # already reported against the token tree
    return len(tform) >= 2 or (tform and tform[0][0] in ("quote", "ul", "ol", "table", "dl", "div"))


def classify(a, b, backend):
    """Mechanism key from the first differing sub-terms."""
    def head(x):
        if isinstance(x, list) and x and isinstance(x[0], str):
            return x[0]
        if isinstance(x, list) and x and isinstance(x[0], list) and x[0] and isinstance(x[0][0], str):
            return x[0][0]
        return type(x).__name__

    if isinstance(a, str) and isinstance(b, str):
        if a.rstrip("\n") == b.rstrip("\n"):
            return f"text:final-newline:{backend}"
        if a.strip() == b.strip():
            return "text:whitespace"
        return "text:content"
    return f"structure:{head(a)}-vs-{head(b)}"


# ------------------------------------------------------------------------------------------- workload


def compose(R, md, how):
    L = md.rstrip("\n").split("\n")
    if how == "quote":
        return "\n".join("> " + l for l in L) + "\n"
    if how == "list":
        return "\n".join(("- " if i == 0 else "  ") + l for i, l in enumerate(L)) + "\n"
    if how == "quote-list":
        return compose(R, compose(R, md, "list"), "quote")
    if how == "list-list":
        return compose(R, compose(R, md, "list"), "list")
    if how == "olist":
        return "\n".join(("7) " if i == 0 else "   ") + l for i, l in enumerate(L)) + "\n"
    if how == "cell" and len(L) == 1 and "|" not in md:
        return f"| h | {L[0]} |\n|:--|--:|\n| {L[0]} | x |\n"
    return md


BLOCKS = ["para", "para", "atx", "setext", "bullet", "ordered", "quote", "hr", "icode", "fence", "fence_lang", "html", "table", "target", "comment", "blockbreak", "mathblock", "deflist", "fieldlist", "footdef", "tasklist", "attrs_para", "div"]
INLINES = ["em", "strong", "code", "url", "auto", "image", "hard", "soft", "math", "span", "strike", "fnref", "html_inline", "entity", "escape"]


LINK_TEXTS = ["plain", "`code`", "$m^2$", "*em*", "**`c`**", "![i](i.png)", "<b>h</b>", "", "a [b] c", "x `c` y", "&amp;", "\\*"]
LINK_DESTS = ["./a/../b.md", "a//b.md", "dir/", "https://e.org/a/../b//c", "https://e.org/x?a=1&b=2", "other.md", "./a/b.md#frag", "#anchor", "nofile.txt", "<a b.md>", "mailto:a@b.c", "", "/abs/x.md", "ünï.md", "x%20y.md", "a\\(b\\).md", "README.md", "API/Index.md#Section", "<Two  Spaces.md>", "MiXed.TXT", "#Anchor-Name", "HTTPS://E.org/Path", "<A\tTab.md>", "ÉCOLE.md", "STRASSEß.md", "İ.md"]
IMG = ["![alt](i.png)", "![*em* `c` alt](p/q.png \"T\")", "![](i.png)", "![a](<sp ace.png>)", "![a](https://e.org/i.png 'ti')", "![a ![b](c.png) d](e.png)", "![a][ref]\n\n[ref]: r.png \"RT\"",
       # destinations that a path normaliser would rewrite
       "![a](./img/four.png)", "![a](img/../icons/six.svg)", "![a](assets//seven.png)", "![a](gallery/)", "![a](../up/./x.png)", "![a](/abs//y.png)", "![a](a/b/../../c.png?x=1#frag)", "![a](.)", "![a](data:image/png;base64,AA//BB==)",
       "![a](x%2Fy.png)", "![a](ünï/ö.png)", "![a](C:/dir/z.png)", "![a](file:///tmp/../x.png)", "![a](<./sp ace/../i.png>)"]
OL = ["{style=lower-alpha}\n1. a\n2. b", "{style=upper-roman start=4}\n4. a\n5. b", "{style=nosuch}\n1) a", "- x\n\n  {style=upper-alpha}\n  3. y", "1. a\n2. b", "0. a\n1. b", "7) a\n8) b", "007. a", "123456789. a", "1. a\n\n   1) b\n   2) c", "- x\n\n  0) y", "> 3. q", "2. a\n\n3) b", "* a\n+ b\n- c", "- a\n  - b\n    * c"]
ALIGN = [":--", "--:", ":-:", "---"]
INFO = ["python", "c", "text", "unknownlang", "python extra", "  py", "c++", "", "~x", "Python", "python\ttitle", "c\t \tlinenos", "py\u00a0x", "c\u3000wide", "text\x0cff", "py  two  blanks", "\tpy"]


def matrices():
    """Enumerated documents for the attributes the statement names (destinations/titles/alt, list style/start, alignment, language)."""
    out = []
    for t in LINK_TEXTS:
        for d in LINK_DESTS:
            for title in ("", ' "T i"'):
                if d.startswith("<") and title:
                    pass
                out.append(f"p [{t}]({d}{title}) q\n")
    for d in LINK_DESTS[:5]:
        out.append(f"<{d}>\n" if ":" in d else f"[ref text][r]\n\n[r]: {d} 'RT'\n")
    out += [i + "\n" for i in IMG]
    out += [o + "\n" for o in OL]
    for a in ALIGN:
        for b in ALIGN:
            out.append(f"| h1 | h2 |\n| {a} | {b} |\n| `c` | *e* |\n| only one |\n| 1 | 2 | 3 |\n")
    for i in INFO:
        for ch in ("```", "~~~"):
            if ch == "```" and "`" in i:
                continue
            out.append(f"{ch}{i}\n\ncode  <b> &amp; *x*\n\tTab\n\n{ch}\n")
    out.append("    indented\n\n      more\n")
    # leaves whose rendering consults per-document state left by EARLIER leaves (labels, ids, names used twice): every leaf still appears once
    out += [
        "$$\na = 1\n$$ (eq)\n\n$$\nb = 2\n$$ (eq)\n\n$$\nc = 3\n$$ (eq)\n\n$$\nd = 4\n$$ (other)\n",
        "> $$\n> a\n> $$ (q)\n\n- $$\n  b\n  $$ (q)\n",
        "\\begin{equation}\na\n\\end{equation}\n\n\\begin{equation}\na\n\\end{equation}\n",
        "$x$ $x$ $$y$$ $$y$$\n\n$$\ny\n$$\n\n$$\ny\n$$\n",
        "![a](i.png){#im}\n\n![b](j.png){#im}\n\n`c`{#im} `c`{#im} [s]{#im}\n",
        "# T\n\n# T\n\n## T\n\n## T\n\ntext\n\n---\n\n---\n\ntext\n",
        "(t)=\npara one\n\n(t)=\npara two\n\n(t)=\n```\ncode\n```\n",
        "term\n: def `c`\n\nterm\n: def `c`\n",
        "<b>x</b> <b>x</b>\n\n<div>d</div>\n\n<div>d</div>\n",
        # HTML that contains a convertible element next to something else: one raw leaf whatever extensions are on
        "<img src=\"a.png\">\nFigure 1: caption\n", "<img src=\"a.png\">\n<!-- note -->\n", "text <img src=\"a.png\"> tail &amp; <b>x</b>\n", "<div class=\"admonition\">x</div> tail text\n", "&amp; <img src=\"a.png\">\n",
        "<!-- c --><img src=\"a.png\">\n", "<img src=\"a.png\"><b>b</b>\n", "<?pi x?>\n<img src=\"a.png\">\n", "<div class=\"admonition\">\n<p>x</p>\n</div>\ntrailing words\n", "> <img src=\"a.png\"> quoted text\n",
    ]
    return out


def run_shard(ctx):
    R = ctx.rng
    quick = ctx.tier == "quick"
    # 0. attribute matrices x modes x back ends
    nm = 0
    mats = matrices()
    for i, text in enumerate(mats):
        if i % ctx.nshards != ctx.shard:
            continue
        for mode, exts in [("commonmark", []), ("gfm", []), ("myst", []), ("myst", STATIC_EXT), ("myst", HTML_EXT)]:
            case = {"kind": "matrix", "text": text, "mode": mode, "exts": exts, "backends": ["docutils", "sphinx"]}
            eval_case(ctx, case)
            ctx.case((text, mode, tuple(exts)), True)
            nm += 1
    ctx.subrun("attribute_matrices", exhaustive=True, documents=len(mats) if ctx.shard == 0 else 0, cases=nm)
    # 1. every spec example x modes (partitioned over shards)
    n = 0
    modes = [("commonmark", []), ("gfm", []), ("myst", []), ("myst", STATIC_EXT), ("myst", HTML_EXT)]
    for i, mdtext in enumerate(SPEC):
        if i % ctx.nshards != ctx.shard:
            continue
        for mode, exts in modes:
            case = {"kind": "spec", "idx": i, "text": mdtext, "mode": mode, "exts": exts, "backends": ["docutils", "sphinx"]}
            nt = eval_case(ctx, case)
            ctx.case((mdtext, mode, tuple(exts)), bool(nt))
            n += 1
    ctx.subrun("spec_examples_all_modes", exhaustive=True, examples=len(SPEC) if ctx.shard == 0 else 0, cases=n)
    ctx.sample({"kind": "spec", "text": SPEC[ctx.shard][:200], "mode": "commonmark"})
    # 2. composed + grammar
    n2 = 1500 if quick else 60000
    for i in range(n2):
        mode, exts = R.choice(modes)
        if mode == "myst" and R.random() < 0.5:
            exts = sorted(e for e in HTML_EXT if R.random() < 0.5)
        if i % 2 == 0:
            text = compose(R, R.choice(SPEC), R.choice(["quote", "list", "quote-list", "list-list", "olist", "cell"]))
            kind = "composed"
        else:
            g = G.Gen(R, blocks=BLOCKS, inlines=INLINES, max_depth=R.randint(2, 6), hr_in_container=True, exotic=R.random() < 0.3)
            text, _ = g.document(1, 5)
            kind = "grammar"
            if mode != "myst":
                pass
        case = {"kind": kind, "text": text, "mode": mode, "exts": exts, "backends": ["docutils"] + (["sphinx"] if i % 3 == 0 else [])}
        nt = eval_case(ctx, case)
        ctx.case((text, mode, tuple(exts)), bool(nt))
        if i < 2:
            ctx.sample({"kind": kind, "text": text[:300], "mode": mode, "exts": exts})
        if (i & 0x1F) == 0 and ctx.out_of_time():
            break


def finalize(m, tier):
    c = m["counters"]
    for mode in ("commonmark", "gfm", "myst"):
        for be in ("docutils", "sphinx"):
            k = f"compared:{mode}:{be}"
            lo = 600 if be == "docutils" else 300
            if c.get(k, 0) < lo:
                m["inconclusive"].append(f"monitor compared only {c.get(k, 0)} cases for {mode}/{be} (< {lo})")
    total = sum(v for k, v in c.items() if k.startswith("compared:"))
    unk = c.get("unknown_token_types", 0) + c.get("unknown_doctree_nodes", 0)
    if unk > 0.02 * max(1, total):
        m["inconclusive"].append(f"{unk} cases contained token/node types the model does not know (> 2%)")
    mon.require_reach(m, ANCHORS)
