"""C11 - footnotes are numbered, linked and collected consistently.

Executable-model monitor: the generator builds an arrangement of footnote references and definitions (named, numeric,
duplicate, missing, unreferenced; definitions before/after/inside containers; references in any order and multiplicity,
also inside definitions); a small model computes the expected labels, links, back-references, placement and warnings
for each of the 2 x 2 settings; the observed doctree after the full pipeline must agree.
"""

from __future__ import annotations

import re

from .. import core, drive, mon

PROP = "C11"
RULE = (
    "arrangements over <= 6 labels (named, numeric incl. colliding '1','2','10', duplicate definitions, missing "
    "definitions, unreferenced definitions), references in any order/multiplicity incl. inside definitions, definitions at "
    "top level / in quote / list item / directive / after a heading, x footnote_sort x footnote_transition (given globally, in front matter, or in front matter over contradicting global values); distinct by "
    "hash of (arrangement, settings); non-trivial = >= 2 definitions and >= 2 references"
)
ASSUME = [
    "with footnote_sort off, auto-numbered footnotes are numbered in definition order (docutils' rule; the option's help ties reference-order numbering to sorting)",
    "the text of a dropped duplicate definition is not counted as lost footnote text (it is omitted deliberately, with a warning)",
]
SHARDS = {"quick": 16, "thorough": 16}
BUDGET_S = {"quick": 45, "thorough": 900}
ANCHORS = ["DocutilsRenderer.render_footnote_ref", "DocutilsRenderer.render_footnote_reference", "SortFootnotes.apply", "CollectFootnotes.apply", "UnreferencedFootnotesDetector.apply"]


def setup(ctx):
    mon.start_reach(ctx)


def teardown(ctx):
    mon.finish_reach(ctx, ANCHORS)


def contain(kind, lines):
    if kind == "quote":
        return ["> " + l if l else ">" for l in lines]
    if kind == "list":
        return [("- " if i == 0 else "  ") + l if l else "" for i, l in enumerate(lines)]
    if kind == "note":
        return ["````{note}"] + lines + ["````"]
    # text that a directive parses itself (titles, captions): references there are as good as anywhere else
    if kind == "admon-title" and len(lines) == 1:
        return ["~~~~{admonition} " + lines[0], "body of the admonition", "~~~~"]
    if kind == "topic-title" and len(lines) == 1:
        return ["~~~~{topic} " + lines[0], "body of the topic", "~~~~"]
    if kind == "table-caption" and len(lines) == 1:
        return ["~~~~{table} " + lines[0], "| a |", "|---|", "~~~~"]
    if kind == "figure-caption" and len(lines) == 1:
        return ["~~~~{figure} i.png", "", lines[0], "~~~~"]
    return lines


def build(case):
    """-> text, events in render order: ("ref", label, marker) / ("def", label, marker, container)."""
    lines, events = [], []
    n = 0
    for it in case["items"]:
        n += 1
        if it[0] == "para":
            labels = it[1]
            parts = [f"rp{n}"]
            for j, lab in enumerate(labels):
                # with other inline extensions on, what FOLLOWS a reference must not turn it into something else
                tail = ["", "", "{.cls}", "{#rid%d%d}" % (n, j), "{k=v}", "{.a .b}", "{}", "{sub}`2`", ":", "^"][(n * 7 + j * 3) % 10] if case.get("exts") else ""
                parts.append(f"r{n}x{j}[^{lab}]{tail}")
                events.append(("ref", lab, f"r{n}x{j}"))
            if len(it) > 2 and it[2] == "quote-directive":
                # a quote directive with an attribution line: the references of the body come first, those of the attribution after them
                kb = 1 + (len(labels) + 1) // 2
                L = ["~~~~{" + ["epigraph", "pull-quote", "highlights"][n % 3] + "}", " ".join(parts[:kb]) + " end", "", "-- attribution " + " ".join(parts[kb:]) + " done", "~~~~"]
            else:
                L = contain(it[2] if len(it) > 2 else "top", [" ".join(parts) + " end"])
            lines += L + [""]
        elif it[0] == "def":
            lab, cont, inner = it[1], it[2], it[3]
            mk = f"fd{n}"
            body = f"[^{lab}]: {mk} text"
            events.append(("def", lab, mk, cont))
            for j, il in enumerate(inner):
                body += f" i{n}x{j}[^{il}]"
                events.append(("ref", il, f"i{n}x{j}"))
            L = [body] + (["    second para of " + mk] if it[4] else [])
            if it[4]:
                L = [body, "", "    second para of " + mk]
            lines += contain(cont, L) + [""]
        elif it[0] == "heading":
            lines += [f"# Heading {n}", ""]
        elif it[0] == "text":
            lines += [f"plain {n}", ""]
    return "\n".join(lines) + "\n", events


def model(events, sort):
    """Expected: label per defined footnote marker, dropped duplicate markers, unreferenced markers, ref -> footnote marker."""
    first_def = {}
    dups = []
    order = []
    for e in events:
        if e[0] == "def":
            if e[1] in first_def:
                dups.append(e[2])
            else:
                first_def[e[1]] = e[2]
                order.append(e[1])
    refs = [(e[1], e[2]) for e in events if e[0] == "ref"]
    # a dropped duplicate's inner references are never rendered
    referenced = {lab for lab, _ in refs}
    auto = [l for l in order if not l.isdigit()]
    if sort:
        auto_ref_order = [lab for lab, _ in refs if not lab.isdigit()]
        auto.sort(key=lambda l: auto_ref_order.index(l) if l in auto_ref_order else 999)
    taken = {l for l in order if l.isdigit()} | set(order)
    number = {}
    k = 1
    for l in auto:
        while str(k) in taken:
            k += 1
        number[l] = str(k)
        k += 1
    for l in order:
        if l.isdigit():
            number[l] = l
    unref = [first_def[l] for l in order if l not in referenced]
    return first_def, number, dups, unref, refs


def drop_dup_inner(events):
    """References written inside a duplicate (dropped) definition are not rendered: remove them from the event list."""
    seen, out, skipping = set(), [], False
    i = 0
    while i < len(events):
        e = events[i]
        if e[0] == "def":
            skipping = e[1] in seen
            seen.add(e[1])
            out.append(e)
        elif e[0] == "ref" and e[2].startswith("i") and skipping:
            pass
        else:
            if not e[2].startswith("i"):
                skipping = False
            out.append(e)
        i += 1
    return out


def eval_case(ctx, case):
    from docutils import nodes

    text, events = build(case)
    events = drop_dup_inner(events)
    sort, trans = case["sort"], case["transition"]
    detail = {"text": text, "sort": sort, "transition": trans}
    via = case.get("via", "global")
    kw = {"myst_footnote_sort": sort, "myst_footnote_transition": trans}
    exts = ["attrs_inline", "attrs_block", "deflist", "strikethrough", "substitution", "dollarmath", "colon_fence", "tasklist", "fieldlist", "smartquotes", "replacements"] if case.get("exts") else []
    if via == "front-sort-only":
        # only ONE of the two options is overridden in the front matter; the other keeps its project-wide value
        text = f"---\nmyst:\n  footnote_sort: {'true' if sort else 'false'}\n---\n\n" + text
        kw = {"myst_footnote_sort": not sort, "myst_footnote_transition": trans}
        detail["text"] = text
    elif via == "front-transition-only":
        text = f"---\nmyst:\n  footnote_transition: {'true' if trans else 'false'}\n---\n\n" + text
        kw = {"myst_footnote_sort": sort, "myst_footnote_transition": not trans}
        detail["text"] = text
    elif via != "global":
        # the same effective settings, supplied in the document's front matter (optionally over contradicting global values)
        text = f"---\nmyst:\n  footnote_sort: {'true' if sort else 'false'}\n  footnote_transition: {'true' if trans else 'false'}\n---\n\n" + text
        kw = {"myst_footnote_sort": not sort, "myst_footnote_transition": not trans} if via == "front-over-opposite-global" else {}
        detail["text"] = text
    if exts:
        kw["myst_enable_extensions"] = exts
    front_end = case.get("front_end", "docutils")
    try:
        if front_end == "sphinx":
            # the same arrangement through the Sphinx front end (MyST replaces Sphinx' unreferenced-footnote detector)
            conf = {k: v for k, v in kw.items()} | {"keep_warnings": True}
            first = dict(conf)
            flip = case.get("reconf")
            if flip:
                # the project is first built with other footnote settings, then conf.py is edited and the project built again (sources untouched)
                for k in flip:
                    first[k] = not conf[k]
            b = drive.SphinxBuild({"index.md": text}, conf=first, builder="dummy")
            try:
                b.build()
                if flip:
                    b.rebuild({}, conf=conf)
                    ctx.count("sphinx_reconfigured_builds")
                doc = b.doctree("index").deepcopy()
                wtext = "\n".join("index.md:0: (WARNING/2) " + r["msg"].replace("\n", " ") for r in b.stream_records())  # the stream: what the user sees
            finally:
                b.close()
            if len(doc.children) == 1 and isinstance(doc[0], nodes.section) and False:
                pass
        else:
            doc, wtext = drive.parse(text, doctitle_xform=False, **kw)
    except Exception as e:  # noqa: BLE001
        ctx.count("no_document:" + type(e).__name__)
        return False
    ctx.count("front_end:" + front_end)
    first_def, number, dups, unref, refs = model(events, sort)
    detail["model"] = {"labels": number, "dups": dups, "unreferenced": unref}
    detail["doctree"] = doc.pformat()[:6000]
    # --- footnotes by marker
    foots = {}
    for f in doc.findall(nodes.footnote):
        m = re.search(r"\bfd\d+\b", f.astext())
        if m:
            if m.group(0) in foots:
                ctx.violation("footnote:text-duplicated", f"definition {m.group(0)} occurs twice", case, detail)
            foots[m.group(0)] = f
    for lab, mk in first_def.items():
        if mk not in foots:
            ctx.violation("footnote:text-lost", f"the definition {mk} of [^{lab}] is not in the document", case, detail)
    for mk in dups:
        if mk in foots:
            ctx.violation("duplicate:not-dropped", f"duplicate definition {mk} was kept", case, detail)
    labels_seen = []
    for lab, mk in first_def.items():
        f = foots.get(mk)
        if f is None:
            continue
        if not len(f) or not isinstance(f[0], nodes.label):
            ctx.violation("footnote:no-label", f"footnote {mk} does not start with a label", case, detail)
            continue
        got = f[0].astext()
        labels_seen.append(got)
        if got != number[lab]:
            ctx.violation("number:" + ("numeric-label-changed" if lab.isdigit() else ("order-sorted" if sort else "order-unsorted")), f"footnote [^{lab}] ({mk}) is labelled {got}, model says {number[lab]}", case, detail)
        if f.get("ids") and len(f["ids"]) != 1:
            ctx.violation("footnote:ids", f"footnote {mk} has ids {f['ids']}", case, detail)
        # second paragraph kept
    if len(set(labels_seen)) != len(labels_seen):
        ctx.violation("number:labels-not-distinct", f"labels {labels_seen}", case, detail)
    # --- references
    refnodes = {}
    for r in doc.findall(nodes.footnote_reference):
        prev = None
        par = r.parent
        idx = par.index(r)
        if idx > 0 and isinstance(par[idx - 1], nodes.Text):
            mm = re.findall(r"\b[ri]\d+x\d+$", str(par[idx - 1]))
            if mm:
                refnodes[mm[0]] = r
    expected_backrefs = {}
    for lab, rmk in refs:
        if lab not in first_def:
            continue  # undefined: docutils' own error; must not disturb others (checked through the others)
        r = refnodes.get(rmk)
        f = foots.get(first_def[lab])
        if r is None:
            ctx.violation("ref:lost", f"reference {rmk} to [^{lab}] is not a footnote_reference in the doctree", case, detail)
            continue
        if f is None:
            continue
        if r.get("refid") not in f["ids"]:
            ctx.violation("ref:wrong-footnote", f"reference {rmk} to [^{lab}] has refid {r.get('refid')!r}, the definition has ids {f['ids']}", case, detail)
        if r.astext() != number[lab]:
            ctx.violation("ref:number-differs-from-label", f"reference {rmk} to [^{lab}] shows {r.astext()!r}, the footnote is labelled {number[lab]}", case, detail)
        expected_backrefs.setdefault(first_def[lab], []).extend(r["ids"])
        ctx.count("refs_checked")
    for mk, f in foots.items():
        if sorted(f.get("backrefs", [])) != sorted(expected_backrefs.get(mk, [])):
            ctx.violation("backrefs:mismatch", f"footnote {mk} lists backrefs {f.get('backrefs')}, its references have ids {expected_backrefs.get(mk, [])}", case, detail)
    # --- placement
    kids = [c for c in doc.children if not isinstance(c, nodes.system_message)]
    all_f = [f for f in doc.findall(nodes.footnote)]
    trans_nodes = [t for t in doc.findall(nodes.transition) if "footnotes" in t.get("classes", [])]
    if sort:
        tail = kids[len(kids) - len(all_f):] if all_f else []
        if any(f.parent is not doc for f in all_f) or [id(x) for x in tail] != [id(f) for f in all_f]:
            ctx.violation("collect:not-at-end", "with footnote_sort the definitions are not all at the end of the document", case, detail)
        else:
            labs = [f[0].astext() for f in all_f if len(f) and isinstance(f[0], nodes.label)]
            def _num_key(s):
                try:
                    return (0, int(s), "")  # anything that reads as an integer sorts by its value (also digits of other scripts)
                except ValueError:
                    return (1, 0, s)

            if labs != sorted(labs, key=_num_key):
                ctx.violation("collect:order", f"collected footnotes are in label order {labs}", case, detail)
            others = kids[: len(kids) - len(all_f)]
            want_t = 1 if (trans and all_f and others) else 0
            if len(trans_nodes) != want_t:
                ctx.violation("collect:transition-count", f"{len(trans_nodes)} footnotes transitions, expected {want_t}", case, detail)
            elif want_t and others[-1] is not trans_nodes[0]:
                ctx.violation("collect:transition-position", "the footnotes transition does not directly precede the collected footnotes", case, detail)
    else:
        if trans_nodes:
            ctx.violation("collect:transition-without-sort", "a footnotes transition was added although sorting is off", case, detail)
        for e in events:
            if e[0] != "def" or e[2] not in foots or e[2] in dups:
                continue
            f = foots[e[2]]
            want = {"top": (nodes.document, nodes.section), "quote": (nodes.block_quote,), "list": (nodes.list_item,), "note": (nodes.Admonition,)}[e[3]]
            if not isinstance(f.parent, want):
                ctx.violation("collect:moved-without-sort", f"definition {e[2]} written in {e[3]} is now under <{f.parent.tagname}>", case, detail)
    # --- warnings
    recs = drive.split_warnings(wtext)
    nd = sum(1 for w in recs if "Duplicate footnote definition" in w["msg"] and "[ref.footnote]" in w["msg"])
    nu = sum(1 for w in recs if "is not referenced" in w["msg"] and "[ref.footnote]" in w["msg"])
    if nd != len(dups):
        ctx.violation("warning:duplicate-count", f"{nd} duplicate-definition warnings for {len(dups)} duplicate definitions", case, {**detail, "stream": wtext})
    if nu != len(unref):
        ctx.violation("warning:unreferenced-count", f"{nu} unreferenced warnings for {len(unref)} unreferenced definitions", case, {**detail, "stream": wtext})
    ctx.count("docs_judged")
    ctx.count("dups_expected", len(dups))
    ctx.count("unref_expected", len(unref))
    ctx.count("sorted_docs" if sort else "unsorted_docs")
    ctx.count("via:" + via)
    return len(first_def) >= 2 and len(refs) >= 2


# ------------------------------------------------------------------------------------------- workload

LABELS = ["a", "b", "c", "note-x", "1", "2", "10", "Z", "05", "007", "3", "d", "e", "f", "g", "h", "k", "²", "①", "٣"]  # zero-padded numbers are numbers


def make_case(R):
    pool = R.sample(LABELS, R.randint(1, 6) if R.random() < 0.85 else R.randint(9, 14))
    items = []
    defs = []
    for lab in pool:
        if R.random() < 0.85:
            defs.append(lab)
            if R.random() < 0.2:
                defs.append(lab)  # duplicate
    R.shuffle(defs)
    for lab in defs:
        inner = [R.choice(pool) for _ in range(R.choice([0, 0, 0, 1, 2]))]
        items.append(["def", lab, R.choice(["top", "top", "top", "quote", "list", "note"]), inner, R.random() < 0.2])
    for _ in range(R.randint(0, 5)):
        labs = [R.choice(pool + ["missing"] if R.random() < 0.15 else pool) for _ in range(R.randint(1, 3))]
        items.insert(R.randint(0, len(items)), ["para", labs, R.choice(["top", "top", "quote", "list", "note", "admon-title", "topic-title", "table-caption", "figure-caption", "quote-directive"])])
    for _ in range(R.choice([0, 0, 1])):
        items.insert(R.randint(0, len(items)), ["heading"])
    for _ in range(R.choice([0, 1])):
        items.insert(R.randint(0, len(items)), ["text"])
    return {"kind": "arr", "items": items, "sort": R.random() < 0.6, "transition": R.random() < 0.6, "via": R.choice(["global", "global", "front-only", "front-over-opposite-global", "front-sort-only", "front-transition-only"]), "exts": R.random() < 0.3}


def run_shard(ctx):
    R = ctx.rng
    n = 3000 if ctx.tier == "quick" else 120000
    ns = 25 if ctx.tier == "quick" else 1500
    for i in range(ns):
        case = make_case(R)
        case["front_end"] = "sphinx"
        if i % 2 == 1 and case["via"] == "global":
            case["reconf"] = R.choice([["myst_footnote_sort"], ["myst_footnote_transition"], ["myst_footnote_sort", "myst_footnote_transition"]])
        nt = eval_case(ctx, case)
        ctx.case(repr(case), bool(nt))
        if i == 0:
            ctx.sample(case)
        if ctx.time_left() < ctx.budget_s * 0.7:
            break
    for i in range(n):
        case = make_case(R)
        nt = eval_case(ctx, case)
        ctx.case(repr(case), bool(nt))
        if i < 2:
            ctx.sample(case)
        if (i & 0x1F) == 0 and ctx.out_of_time():
            break


def finalize(m, tier):
    c = m["counters"]
    for k, lo in (("docs_judged", 10000), ("refs_checked", 20000), ("dups_expected", 1000), ("unref_expected", 1000), ("sorted_docs", 3000), ("unsorted_docs", 3000), ("front_end:sphinx", 150)):
        if c.get(k, 0) < lo:
            m["inconclusive"].append(f"monitor observed only {c.get(k, 0)} '{k}' events (< {lo})")
    mon.require_reach(m, ANCHORS)
