"""C18 - inventory loading agrees with Sphinx and is independent of stream chunking.

Monitors: (1) reference implementation: sphinx.util.inventory.InventoryFile.load on the same bytes;
(2) chunking differential: a raw stream returning scripted read sizes (every split point, byte-wise, primes, short
reads) with a log of what InventoryFileReader.read_buffer received; (3) line mutations; (4) to/from Sphinx round trip.
"""

from __future__ import annotations

import io
import posixpath
import zlib

from .. import core

PROP = "C18"
RULE = (
    "inventories serialised (v1 and v2 writers of the harness) from generated object tables with adversarial names; "
    "each x scripted chunkings of the byte stream; line/header mutations; distinct by hash of (bytes, chunk script); "
    "non-trivial = >=1 entry and (>=2 reads or a mutation or a duplicate)"
)
ASSUME = [
    "fields contain no str.splitlines()-only separators (\\r, \\x0b, \\x0c, \\x1c-\\x1e, \\x85, U+2028/9): Sphinx splits "
    "decompressed text with splitlines(), the port splits on \\n - generated tables avoid them",
    "an empty display name and '-' are the same display name (both loaders then show the object name)",
    "read(n) may return fewer than n bytes; b'' only at end of stream",
]
SHARDS = {"quick": 16, "thorough": 16}
BUDGET_S = {"quick": 40, "thorough": 900}

V2_HEAD = "# Sphinx inventory version 2\n# Project: {p}\n# Version: {v}\n# The remainder of this file is compressed using zlib.\n"
V1_HEAD = "# Sphinx inventory version 1\n# Project: {p}\n# Version: {v}\n"


# how an entry line ends (files written on other systems / by other tools): line feed, CR LF, trailing blanks or tabs before the line end
LINE_ENDS = {"lf": "\n", "crlf": "\r\n", "blanks": "  \n", "tab": "\t\n", "cr-blank": " \r\n"}


def ser_v2(project, version, lines, final_nl=True, level=6, eol="lf"):
    e = LINE_ENDS[eol]
    body = e.join(lines) + (e if final_nl and lines else "")
    return V2_HEAD.format(p=project, v=version).encode() + zlib.compress(body.encode(), level)


def ser_v1(project, version, lines, final_nl=True, eol="lf"):
    e = LINE_ENDS[eol]
    body = e.join(lines) + (e if final_nl and lines else "")
    return (V1_HEAD.format(p=project, v=version) + body).encode()


class Chunked(io.RawIOBase):
    """Raw stream returning reads of scripted sizes (cycled); logs every read."""

    def __init__(self, data, sizes):
        self.d, self.p, self.sizes, self.i, self.log = data, 0, sizes, 0, []

    def readable(self):
        return True

    def read(self, n=-1):
        k = self.sizes[self.i % len(self.sizes)]
        self.i += 1
        if n is not None and n > 0:
            k = min(k, n)
        out = self.d[self.p : self.p + k]
        self.p += len(out)
        self.log.append(len(out))
        return out


def sphinx_load(b):
    from sphinx.util.inventory import InventoryFile

    inv = InventoryFile.load(io.BytesIO(b), "", posixpath.join)
    out = {}
    for typ, d in inv.items():
        for name, item in d.items():
            proj, ver, loc, disp = tuple(item)
            out[(typ, name)] = (proj, ver, loc, disp or "-")
    return out


def myst_flat(inv):
    out = {}
    for dom, d in inv["objects"].items():
        for ot, dd in d.items():
            for name, it in dd.items():
                out[(f"{dom}:{ot}", name)] = (inv["name"], inv["version"], it["loc"], it["text"] or "-")
    return out


def myst_load(b, sizes=None):
    from myst_parser import inventory as mi

    st = io.BytesIO(b) if sizes is None else Chunked(b, sizes)
    inv = mi.load(st)
    return inv, myst_flat(inv), (st.log if sizes is not None else None)


# ------------------------------------------------------------------------------------------- generators

NAMES = ["foo", "mod", "mod.func", "a b c", "with  two", "Ünï.cödé", "日本語", "x$", "$", "a-b", "A", "a", "name:colon", "-", "1", "tab\tname", "em—dash", "😀.emoji", "q?*[]", "very." * 6 + "long"]
TYPES = ["py:function", "py:module", "py:class", "std:label", "std:term", "std:doc", "c:macro", "rst:directive:option", "js:data", "std:cmdoption", "js:module", "std:module", "f:module", "py:module:x", "x:py:module"]
LOCS = ["api.html#$", "x.html", "dir/p.html#$", "$", "", "i.html#a-b", "ü.html#$", "p.html#sec tion".replace(" ", "%20")]
DISP = ["-", "-", "Title", "Title With Spaces", "Ünï Títle", "x  y", "-x", "$"]


def gen_table(R, n=None):
    rows = []
    n = R.randint(0, 12) if n is None else n
    for _ in range(n):
        rows.append((R.choice(NAMES), R.choice(TYPES), R.choice(["1", "0", "-1", "2", "10"]), R.choice(LOCS), R.choice(DISP)))
    # deliberate duplicates, py:module ones included
    if rows and R.random() < 0.5:
        nm, ty, pr, lo, di = R.choice(rows)
        rows.insert(R.randint(0, len(rows)), (nm, R.choice([ty, "py:module"]), pr, "dup/" + lo, di))
    if R.random() < 0.35:
        m = R.choice(NAMES)
        rows.append((m, "py:module", "0", "first.html#module-$", "-"))
        rows.insert(R.randint(0, len(rows)), (m, "py:module", "0", "second.html", "-"))
    if R.random() < 0.35:
        # the duplicate rule is about py:module only: other '<domain>:module' / '...module...' types keep Sphinx' ordinary behaviour
        m = R.choice(NAMES)
        ty = R.choice(["js:module", "std:module", "f:module", "py:module:x", "x:py:module", "py:class"])
        rows.append((m, ty, "0", "first.html#module-$", "-"))
        rows.insert(R.randint(0, len(rows)), (m, ty, "0", "second.html", "Other title"))
    return rows


def v2_lines(rows):
    return [f"{n} {t} {p} {l} {d}" for n, t, p, l, d in rows]


def v1_lines(rows):
    out = []
    for n, t, _p, l, _d in rows:
        n1 = n.replace(" ", "_").replace("\t", "_") or "n"
        out.append(f"{n1} {t.split(':', 1)[1] if t != 'py:module' else 'mod'} {l.replace('$', 'x') or 'l.html'}")
    return out


def chunk_scripts(R, nbytes, tier):
    scripts = [[1], [2], [3], [5], [7], [13], [16384], [1, 16384], [4096, 1, 7]]
    if nbytes <= 400:
        pts = range(1, nbytes) if tier == "thorough" else sorted(R.sample(range(1, nbytes), min(40, nbytes - 1)))
        scripts += [[k, 1 << 20] for k in pts]
        for _ in range(10 if tier == "quick" else 60):
            a, b = sorted(R.sample(range(1, nbytes), 2))
            scripts.append([a, b - a, 1 << 20])
    for _ in range(4):
        scripts.append([R.randint(1, 64) for _ in range(R.randint(1, 6))])
    return scripts


# ------------------------------------------------------------------------------------------- oracles


def diff_key(rows, exp, got):
    """Structural mechanism key for a load difference."""
    dupmods = {n for n, t, *_ in rows if t == "py:module" and sum(1 for r in rows if r[0] == n and r[1] == "py:module") > 1}
    bad = {k for k in set(exp) | set(got) if exp.get(k) != got.get(k)}
    if bad and all(k[0] == "py:module" and k[1] in dupmods for k in bad):
        return "load-differs:duplicate-py-module-keeps-last"
    if any(k not in got for k in bad):
        return "load-differs:entry-missing"
    if any(k not in exp for k in bad):
        return "load-differs:entry-extra"
    k = sorted(bad)[0]
    fields = ["project", "version", "location", "display-name"]
    for i, f in enumerate(fields):
        if exp[k][i] != got[k][i]:
            return f"load-differs:{f}"
    return "load-differs"


def eval_load(ctx, case):
    """bytes -> compare with Sphinx; then every chunk script -> compare with one-chunk load."""
    b = core.unjson_bytes(case["bytes"])
    rows = [tuple(r) for r in case.get("rows", [])]
    try:
        exp = sphinx_load(b)
        exp_err = None
    except Exception as e:  # noqa: BLE001
        exp, exp_err = None, e
    try:
        inv, got, _ = myst_load(b)
        got_err = None
    except Exception as e:  # noqa: BLE001
        inv, got, got_err = None, None, e
    mutated = case.get("mutation")
    if exp_err is None and got_err is not None:
        sig = core.exc_signature(got_err)
        ctx.violation(f"load-raises:{sig['type']}" + (":mutated" if mutated else ""), f"Sphinx loads these bytes, MyST raises {sig['type']}: {sig['msg']}", case, sig)
        return None
    if exp_err is not None and got_err is None:
        if mutated and mutated.startswith("line:"):
            # a malformed line may be skipped: then the other entries must be intact
            clean = case.get("clean_expected")
            if clean is not None and {tuple(k): tuple(v) for k, v in clean} != {k: v for k, v in got.items()}:
                ctx.violation("mutation:malformed-line-corrupts-others", "malformed line skipped but other entries differ from the clean file", case, {"got": sorted(got.items()), "clean": clean})
            ctx.count("mutated_line_skipped")
        else:
            ctx.violation("load-accepts:" + (mutated or "bytes-sphinx-rejects"), f"Sphinx rejects these bytes ({exp_err!r}), MyST returns a result", case)
        return got
    if exp_err is not None:
        ctx.count("both_reject")
        return None
    if exp != got:
        ctx.violation(diff_key(rows, exp, got), "entries differ from Sphinx's loader", case, {"sphinx": sorted(exp.items()), "myst": sorted(got.items())})
    else:
        # per-type name order as well
        o1 = {}
        for (t, n) in exp:
            o1.setdefault(t, []).append(n)
        o2 = {}
        for (t, n) in got:
            o2.setdefault(t, []).append(n)
        if o1 != o2:
            ctx.violation("load-differs:order", "names within a type come in a different order than in Sphinx", case)
    ctx.count("agree_with_sphinx")
    # round trips
    from myst_parser import inventory as mi

    if got:
        back = mi.from_sphinx(mi.to_sphinx(inv))
        want = dict(inv, base_url=None)
        if back != want:
            ctx.violation("roundtrip:from_sphinx(to_sphinx(inv))", "native -> Sphinx -> native is lossy", case, {"inv": inv, "back": back})
        from sphinx.util.inventory import InventoryFile

        s = InventoryFile.load(io.BytesIO(b), "", posixpath.join)
        s_t = {t: {n: tuple(i) for n, i in d.items()} for t, d in s.items()}
        if all(i[3] for d in s_t.values() for i in d.values()):
            again = mi.to_sphinx(mi.from_sphinx(s))
            if again != s_t:
                ctx.violation("roundtrip:to_sphinx(from_sphinx(s))", "Sphinx -> native -> Sphinx is lossy", case, {"s": s_t, "again": again})
        ctx.count("roundtrips")
    return got


def eval_chunks(ctx, case, one_chunk, scripts):
    b = core.unjson_bytes(case["bytes"])
    for sizes in scripts:
        c = dict(case, chunks=sizes)
        try:
            _, got, log = myst_load(b, sizes)
        except Exception as e:  # noqa: BLE001
            sig = core.exc_signature(e)
            if one_chunk is not None:
                ctx.violation(f"chunking:raises-{sig['type']}", f"load fails only under chunking {sizes[:6]}: {sig['msg']}", c, sig)
            continue
        ctx.case(("chunk", case["bytes"]["__bytes__"] if isinstance(case["bytes"], dict) else case["bytes"], tuple(sizes)), nontrivial=len(log) >= 3 and bool(got))
        ctx.count("chunked_loads")
        ctx.count("reads_observed", len(log))
        if len(log) >= 4:
            ctx.count("chunked_loads_with_4plus_reads")
        if one_chunk is None:
            ctx.violation("chunking:succeeds-only-chunked", f"load succeeds under chunking {sizes[:6]} but fails in one chunk", c)
        elif got != one_chunk:
            ctx.violation("chunking:result-differs", f"result under chunking {sizes[:6]} differs from the one-chunk load", c, {"one": sorted(one_chunk.items()), "chunked": sorted(got.items()), "reads": log[:50]})


def eval_case(ctx, case):
    if case["kind"] == "chunk":
        b = core.unjson_bytes(case["bytes"])
        try:
            one = myst_load(b)[1]
        except Exception:  # noqa: BLE001
            one = None
        eval_chunks(ctx, case, one, [case["chunks"]])
        return
    one = eval_load(ctx, case)
    if "chunks" in case:
        eval_chunks(ctx, case, one, [case["chunks"]])


MUTATIONS = ["line:two-consecutive-no-colon-type", "line:delete-field", "line:nonint-priority", "line:no-colon-type", "line:empty", "line:long-name", "line:only-spaces", "header:version3", "header:garbage", "header:no-zlib", "header:truncated", "body:truncated-zlib", "header:trailing-space", "header:crlf", "header:version-with-trailing-text", "header:format-line-joined", "header:v1-format-line-joined", "header:v1-version-with-trailing-text"]


def mutate(R, project, version, rows, which):
    lines = v2_lines(rows)
    head = V2_HEAD.format(p=project, v=version)
    idx = R.randrange(len(lines)) if lines else 0
    clean_lines = None
    if which == "line:two-consecutive-no-colon-type":
        # two malformed lines with the SAME colon-less type directly after a valid entry: both are skipped, nothing else changes
        while len(rows) < 1:
            rows = rows + [("only", "py:function", "1", "o.html", "-")]
        lines = v2_lines(rows)
        k = R.randrange(len(lines)) + 1
        n0 = rows[k - 1][0]
        bad = [f"{n0} label 1 elsewhere.html#{n0} Hijacked", f"other{n0} label 1 e2.html -"]
        return head.encode() + zlib.compress(("\n".join(lines[:k] + bad + lines[k:]) + "\n").encode()), lines
    if which.startswith("line:"):
        if not lines:
            lines = ["only py:function 1 o.html -"]
        clean_lines = lines[:idx] + lines[idx + 1 :]
        n, t, p, l, d = (rows[idx] if rows else ("only", "py:function", "1", "o.html", "-"))
        lines[idx] = {
            "line:delete-field": f"{n} {t} {p}",
            "line:nonint-priority": f"{n} {t} x{p} {l} {d}",
            "line:no-colon-type": f"{n} {t.replace(':', '')} {p} {l} {d}",
            "line:empty": "",
            "line:long-name": f"{'n' * 10000} {t} {p} {l} {d}",
            "line:only-spaces": "     ",
        }[which]
        if which == "line:long-name":
            clean_lines = None  # still a valid line
        return head.encode() + zlib.compress(("\n".join(lines) + "\n").encode()), clean_lines
    body = zlib.compress(("\n".join(lines) + "\n").encode())
    if which == "header:version3":
        head = head.replace("version 2", "version 3")
    elif which == "header:garbage":
        head = "garbage\n" + head
    elif which == "header:no-zlib":
        head = head.replace("zlib", "gzip")
    elif which == "header:truncated":
        head = "\n".join(head.split("\n")[:2])
        body = b""
    elif which == "body:truncated-zlib":
        body = body[: max(1, len(body) // 2)]
    elif which == "header:trailing-space":
        head = head.replace("version 2\n", "version 2  \n")
    elif which == "header:crlf":
        head = head.replace("\n", "\r\n")
    elif which == "header:version-with-trailing-text":
        head = head.replace("version 2\n", "version " + R.choice(["2.1", "2x", "02", "2 (draft)", "2 0", "22", "2\t"]) + "\n")
    elif which == "header:format-line-joined":
        head = head.replace("version 2\n", "version 2", 1)
    elif which in ("header:v1-format-line-joined", "header:v1-version-with-trailing-text"):
        b1 = ser_v1(project, version, v1_lines(rows)).decode("utf8", "surrogateescape")
        b1 = b1.replace("version 1\n", "version 1" if "joined" in which else "version " + R.choice(["1.0", "1x", "01", "1 (old)", "11"]) + "\n", 1)
        return b1.encode("utf8", "surrogateescape"), None
    return head.encode() + body, None


def run_shard(ctx):
    R = ctx.rng
    quick = ctx.tier == "quick"
    n_tables = 900 if quick else 4000
    for i in range(n_tables):
        rows = gen_table(R)
        proj, ver = R.choice(["Proj", "My Project", "Ünï", ""]), R.choice(["1.0", "2.0rc1", ""])
        fmt = "v1" if R.random() < 0.2 else "v2"
        final_nl = R.random() < 0.85
        eol = R.choice(["lf", "lf", "lf", "crlf", "blanks", "tab", "cr-blank"])
        b = ser_v2(proj, ver, v2_lines(rows), final_nl, R.choice([0, 1, 6, 9]), eol) if fmt == "v2" else ser_v1(proj, ver, v1_lines(rows), final_nl, eol)
        case = {"kind": "load", "format": fmt, "rows": rows, "eol": eol, "bytes": {"__bytes__": b.hex()}}
        ctx.count(f"line_ends:{fmt}:{eol}")
        one = eval_load(ctx, case)
        dup = len({(r[0], r[1]) for r in rows}) < len(rows)
        ctx.case(("load", b.hex()), nontrivial=bool(rows) and dup)
        ctx.count(f"loads_{fmt}")
        if i < 1:
            ctx.sample({"kind": "load", "format": fmt, "rows": rows, "nbytes": len(b)})
        eval_chunks(ctx, case, one, chunk_scripts(R, len(b), ctx.tier))
        # mutations of the same table (v2)
        for which in R.sample(MUTATIONS, 3 if quick else len(MUTATIONS)):
            mb, clean_lines = mutate(R, proj, ver, rows, which)
            mcase = {"kind": "load", "format": "v2", "rows": rows, "mutation": which, "bytes": {"__bytes__": mb.hex()}}
            if clean_lines is not None:
                try:
                    mcase["clean_expected"] = sorted(sphinx_load(ser_v2(proj, ver, clean_lines)).items())
                except Exception:  # noqa: BLE001
                    pass
            m_one = eval_load(ctx, mcase)
            ctx.case(("mut", mb.hex()), nontrivial=True)
            ctx.count("mutations")
            if which.startswith(("line:", "header:trailing", "header:crlf")):
                eval_chunks(ctx, mcase, m_one, [[1], [3], [R.randint(1, 40), 1 << 20]])
        if ctx.out_of_time():
            break
    # large inventories: natural 16 KiB reads from BytesIO plus odd chunk sizes
    for n in ([1200] if quick else [1200, 5000, 5000]):
        if ctx.shard % 4 != 0 and quick:
            break
        rows = []
        for j in range(n):
            rows.append((f"pkg{R.getrandbits(40):x}.é{j}", R.choice(TYPES), "1", f"p{R.getrandbits(30):x}.html#$", R.choice(["-", f"Títle {R.getrandbits(30):x}"])))
        b = ser_v2("Big", "1", v2_lines(rows))
        case = {"kind": "load", "format": "v2", "rows": [], "bytes": {"__bytes__": b.hex()}, "note": f"{n} entries, {len(b)} bytes"}
        one = eval_load(ctx, case)
        ctx.case(("big", b.hex()[:64], n), nontrivial=len(b) > 16384)
        ctx.count("large_inventories")
        if len(b) > 16384:
            ctx.count("large_inventories_over_one_bufsize")
        eval_chunks(ctx, case, one, [[16384], [16383], [4097], [1000, 7], [R.randint(100, 5000) for _ in range(5)]])
    # single very long uncompressed lines (format 1 entries, header lines of both formats): longer than the reader's 16 KiB block, delivered in reads of every size
    for j, ln in enumerate([3000, 16384, 16385, 20000] if quick else [3000, 16383, 16384, 16385, 20000, 40000, 70000]):
        if (ctx.shard + j) % 4 != 2 and quick:
            continue
        long_ = "L" * ln
        variants = {
            "v1-long-location": ser_v1("P", "1", ["alpha mod a.html", f"omega class {long_}.html", "omega2 class o2.html"]),
            "v1-long-name": ser_v1("P", "1", ["alpha mod a.html", f"{long_} class l.html", "omega2 class o2.html"]),
            "v2-long-project": ser_v2(long_, "1", v2_lines([("n", "py:function", "1", "x.html#$", "-")])),
            "v2-long-version": ser_v2("P", long_, v2_lines([("n", "py:function", "1", "x.html#$", "-")])),
            "v1-long-project": ser_v1(long_, "1", ["alpha mod a.html"]),
        }
        for vn, b in variants.items():
            case = {"kind": "load", "format": vn[:2], "rows": [], "bytes": {"__bytes__": b.hex()}, "note": f"{vn} of {ln} bytes"}
            one = eval_load(ctx, case)
            ctx.case(("longline", vn, ln), nontrivial=True)
            ctx.count("long_line_inventories")
            eval_chunks(ctx, case, one, [[16384], [100], [4096, 1], [R.randint(1, 300) for _ in range(4)]] + ([[1], [7]] if ln <= 3000 or not quick else [[7]]))
    # large and very REGULAR tables (api listings): one 16 KiB block of compressed input expands to several hundred KiB
    for n in ([R.randint(20000, 36000)] if quick else [R.randint(20000, 36000), R.randint(40000, 80000)]):
        if ctx.shard % 4 != 1 and quick:
            break
        rows = [(f"pkg.mod{j // 400}.Class{(j // 20) % 20}.method{j % 20}", "py:method", "1", f"api/pkg.mod{j // 400}.html#$", "-") for j in range(n)]
        b = ser_v2("Regular", "1", v2_lines(rows), True, R.choice([6, 9]))
        ratio = sum(len(l) + 1 for l in v2_lines(rows)) / max(1, len(b))
        case = {"kind": "load", "format": "v2", "rows": [], "bytes": {"__bytes__": b.hex()}, "note": f"{n} regular entries, {len(b)} bytes, expansion x{ratio:.0f}"}
        one = eval_load(ctx, case)
        ctx.case(("regular", n, len(b)), nontrivial=ratio > 16 and len(b) > 16384)
        ctx.count("regular_large_inventories")
        if ratio > 16 and len(b) > 16384:
            ctx.count("regular_large_inventories_expanding_16x")
        eval_chunks(ctx, case, one, [[16384], [1024], [65536], [R.randint(1, 65536) for _ in range(6)], [R.randint(1, 4096) for _ in range(6)]])


def finalize(m, tier):
    c = m["counters"]
    for k, lo in (("agree_with_sphinx", 50), ("chunked_loads_with_4plus_reads", 100), ("mutations", 30), ("roundtrips", 30), ("loads_v1", 1), ("large_inventories_over_one_bufsize", 1), ("regular_large_inventories_expanding_16x", 1), ("long_line_inventories", 5)):
        if c.get(k, 0) < lo:
            m["inconclusive"].append(f"monitor observed only {c.get(k, 0)} '{k}' events (< {lo})")
