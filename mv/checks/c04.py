"""C04 - nodes and warnings carry the true source line, at any nesting depth.

Ground-truth monitor: the generator knows, for every unique marker word, the 1-based line of the construct that carries
it and the chain of containers (kind, first line) around it.  After the run every attributable block node (paragraph,
title/rubric, literal_block, target, list, list_item, block_quote, directive output) and every provoked warning is
compared with that table.  For includes the expected source is the included file and the line is relative to it.
"""

from __future__ import annotations

import itertools
import os
import random
import re
import shutil
import tempfile

from .. import core, drive, mon
from ..gen import doc as G

PROP = "C04"
RULE = (
    "documents built from nested containers {quote, bullet item, ordered item, backtick directive, colon directive, colon div} "
    "x directive layouts {no options, ':k: v' block, '---' block} x {0,1,2} blank lines before the body x {0,1} before the "
    "closing fence x fence lengths, leaves {paragraph with an unknown role (warning), heading, fenced/indented code, target}, "
    "include variants {plain, start-line, end-line, start-after, end-before, heading-offset, nested}; structured nestings are "
    "enumerated to the tier's depth (distinct by construction) and grammar documents are random (distinct by hash); "
    "non-trivial = at least one marker sits inside >= 1 container"
)
ASSUME = [
    "only nodes the generator can attribute through a unique marker are judged; docutils' own system_messages are ignored",
    "an inline construct is expected at the first line of its enclosing leaf block (markdown-it maps are per block); warning triggers are placed on that first line",
    "option warnings of a directive are accepted anywhere between the directive's first line and the end of its option block",
]
SHARDS = {"quick": 16, "thorough": 16}
BUDGET_S = {"quick": 45, "thorough": 900}
ANCHORS = ["DocutilsRenderer._render_tokens", "DocutilsRenderer.nested_render_text", "MockState.nested_parse", "MockIncludeDirective.run", "directives.parse_directive_text", "warnings_.create_warning", "DocutilsRenderer.add_line_and_source_path"]

TMP = None


def setup(ctx):
    global TMP
    TMP = tempfile.mkdtemp(prefix="c04_")
    mon.start_reach(ctx)


def teardown(ctx):
    mon.finish_reach(ctx, ANCHORS)
    shutil.rmtree(TMP, ignore_errors=True)


# ------------------------------------------------------------------------------------------- structured builder

CONT_KINDS = ["quote", "bullet", "ordered", "tick", "colon", "div"]
LEAVES = ["para", "heading", "fence", "icode", "target", "list", "two", "dupdef"]


def leaf(g, kind):
    if kind == "para":
        m = g.marker()
        return G.Frag([f"{m} text {{nr-{m}}}`x`", "second line"], [{"m": m, "off": 0, "kind": "paragraph", "chain": [], "warn": f"nr-{m}"}])
    if kind == "heading":
        m = g.marker()
        return G.Frag([f"## {m}"], [{"m": m, "off": 0, "kind": "heading", "chain": []}])
    if kind == "fence":
        m = g.marker()
        return G.Frag(["```", f"{m} code", "```"], [{"m": m, "off": 0, "kind": "literal_block", "chain": []}], tick=3)
    if kind == "icode":
        m = g.marker()
        return G.join([leaf(g, "para"), G.Frag([f"    {m} code"], [{"m": m, "off": 0, "kind": "literal_block", "chain": []}])])
    if kind == "target":
        m = g.marker()
        return G.join([G.Frag([f"(tgt-{m})="], [{"m": f"tgt-{m}", "off": 0, "kind": "target", "chain": []}]), leaf(g, "para")], sep=0)
    if kind == "list":
        b = "*-+"[g.n % 3] + " "
        f = G.join([G.wrap("list_item", leaf(g, "para"), b, "  "), G.wrap("list_item", leaf(g, "para"), b, "  ")], sep=0)
        for mk in f.marks:
            mk["chain"].insert(0, ["bullet_list", 0])
        return f
    if kind == "dupdef":
        # a reference definition and a second, multi-line definition of the same label: [myst.duplicate_def] is reported at the duplicate's FIRST line
        m = g.marker()
        shape = [["[dd%s]: https://b.example"], ["[dd%s]:", "  https://b.example"], ["[dd%s]:", "  https://b.example", "  \"a title\""], ["[dd%s]: https://b.example", "  'title", "  wraps'"]][g.n % 4]
        first = G.Frag([f"[dd{m}]: https://a.example"], [])
        dup = G.Frag([l % m if "%s" in l else l for l in shape], [{"m": "dup-" + m, "off": 0, "kind": "dupdef", "chain": [], "warn_text": f"DD{m}".upper()}])
        return G.join([first, leaf(g, "para"), dup, leaf(g, "para")])
    if kind == "two":
        return G.join([leaf(g, "para"), leaf(g, "para")])
    raise ValueError(kind)


def put(g, frag, c):
    """Wrap ``frag`` in container ``c`` = [kind, layout...]."""
    k = c[0]
    if k == "quote":
        return G.wrap("block_quote", frag, "> ", "> ", blank_prefix=">")
    if k in ("bullet", "ordered"):
        b = "-" if k == "bullet" else "1."
        f = G.wrap("list_item", frag, b + " ", " " * (len(b) + 1))
        for mk in f.marks:
            mk["chain"].insert(0, ["bullet_list" if k == "bullet" else "enumerated_list", 0])
        return f
    if k == "div":
        n = max(3, frag.colon + 1)
        return G.wrap("container", frag, "", "", head=[":" * n + (" cls" if c[1] else "")], tail=[":" * n], colon=n)
    if k == "class":
        # a directive whose output is its body's nodes, unwrapped: their lines are the body lines, not the fence line
        # (always a backtick fence: a colon fence whose body starts with a colon fence has the known +1 of 7.4, which could not be attributed to a container without a node)
        return g.mk_directive(frag, "class", colon=False, style="none", nblank=c[2], tailblank=c[3], extra=0, ch="`~"[c[1]], kind="class-passthrough")
    style, nblank, tailblank, extra = c[1], c[2], c[3], c[4]
    if len(c) > 5 and c[5] and style == "none" and nblank == 0 and frag.marks and all(not mk["chain"] for mk in frag.marks) and frag.marks[0]["kind"] == "paragraph" and len(frag.lines) > 1:
        # body text starts on the directive's own first line (allowed for directives without arguments)
        first_body = frag.lines[0]
        rest = G.Frag(frag.lines[1:], frag.marks, frag.tick, frag.colon).shifted(-1)
        f = g.mk_directive(rest, "note", colon=(k == "colon"), style="none", nblank=0, tailblank=tailblank, extra=extra, ch="~")  # a backtick fence's info string cannot contain backticks
        f.lines[0] = f.lines[0] + " " + first_body
        for mk in f.marks:
            mk["chain"][0][2]["firstline"] = True
        return f
    # directives whose own node gets its line from docutils' bookkeeping (container, topic, compound) as well as the admonitions, which set it themselves
    name = "note" if not style.startswith("dash") else "tip"
    if style == "none" and (len(frag.lines) + nblank + extra) % 3 == 0:
        # ... and the three quote directives, whose body goes through the mock of docutils' block-quote parsing instead of nested_parse
        name = ["container", "topic", "compound", "epigraph", "pull-quote", "highlights"][(len(frag.lines) * 2 + tailblank + extra) % 6]
    return g.mk_directive(frag, name, colon=(k == "colon"), style=style, nblank=nblank, tailblank=tailblank, extra=extra, ch="`")


def build_struct(case):
    g = G.Gen(random.Random(0))
    f = leaf(g, case["leaf"])
    for c in reversed(case["chain"]):
        f = put(g, f, c)
    pre = leaf(g, "para")
    post = leaf(g, "para")
    return finish(G.join([pre, f, post]))


def finish(frag, off=0):
    marks = {}
    for mk in frag.marks:
        marks[mk["m"]] = {"line": mk["off"] + 1, "kind": mk["kind"], "chain": [[c[0], c[1] + 1] + c[2:] for c in mk["chain"]], "warn": mk.get("warn"), "warn_text": mk.get("warn_text")}
    return "\n".join(frag.lines) + "\n", marks


# ------------------------------------------------------------------------------------------- oracle

CONTAINER_TAGS = {"block_quote": "block_quote", "list_item": "list_item", "bullet_list": "bullet_list", "enumerated_list": "enumerated_list", "container": "container"}


def ancestors(node):
    from docutils import nodes

    out = []
    p = node.parent
    while p is not None and not isinstance(p, nodes.document):
        if isinstance(p, nodes.Admonition) or (isinstance(p, nodes.container) and "dirc" in p.get("classes", [])) or isinstance(p, (nodes.topic, nodes.compound)) or (isinstance(p, nodes.block_quote) and {"epigraph", "pull-quote", "highlights"} & set(p.get("classes", []))):
            out.append(("admonition", p))  # the node a directive wraps its body in
        elif p.tagname in CONTAINER_TAGS:
            out.append((p.tagname, p))
        p = p.parent
    return list(reversed(out))


def locate(doc, index, m, kind):
    from docutils import nodes

    if kind == "target":
        for t in doc.findall(nodes.target):
            if m.lower() in t.get("names", []) or m.lower() in t.get("ids", []) or t.get("refid") == m.lower():
                return t
        return None
    hits = index.get(m, [])
    want = {"paragraph": (nodes.paragraph,), "heading": (nodes.title, nodes.rubric), "title": (nodes.title,), "rubric": (nodes.rubric,), "literal_block": (nodes.literal_block,)}.get(kind)
    if not want:
        return None
    for t in hits:
        p = t.parent
        while p is not None:
            if isinstance(p, want):
                return p
            p = p.parent
    return None


def sig(c):
    """Signature of the container whose body offset a deviation is attributed to."""
    if c is None:
        return "top"
    if isinstance(c, str):
        return c
    if c[0] == "admonition" and len(c) > 2:
        lay = c[2]
        if lay.get("firstline"):
            return "directive:body-on-first-line"
        if lay.get("first_colon"):
            return "colon-directive:body-starts-with-colon-fence"
        return f"{'colon' if lay['colon'] else 'tick'}-directive:opts={lay['opts']}:blank={lay['blank']}"
    if c[0] == "container":
        return "div"
    return c[0]


WARN_ROLE = re.compile(r'Unknown interpreted text role "(nr-[\w-]+)"')


def judge(ctx, case, text, marks, doc, wtext, main_src, detail):
    from docutils import nodes

    index = {}
    for t in doc.findall(nodes.Text):
        for w in re.findall(r"mk\d+", str(t)):
            index.setdefault(w, []).append(t)
    judged = 0
    node_of = {}
    for m, info in marks.items():
        if info["kind"] not in ("paragraph", "heading", "title", "rubric", "literal_block", "target"):
            continue
        node = locate(doc, index, m, info["kind"])
        if node is None:
            ctx.count("marker_not_located")
            ctx.count(f"not_located:{case['kind']}:{info['kind']}:{info.get('include')}")
            if os.environ.get("C04_DEBUG") and case["kind"] == "grammar":
                print("NOTLOCATED", m, info, text, sep="\n")
            continue
        node_of[m] = node
        exp_src = info.get("source", main_src)
        if info["kind"] in ("heading", "title") and isinstance(node, nodes.title) and node.parent.line != node.line:
            ctx.violation("section-vs-title-line", f"section line {node.parent.line} != title line {node.line}", case, detail)
        src = node.source
        if src is not None and os.path.basename(str(src)) != os.path.basename(exp_src):
            ctx.violation(f"source:{info['kind']}" + (":include" if info.get("include") else ""), f"<{node.tagname}> of marker {m} has source {src}, expected {exp_src}", case, {**detail, "marker": m})
        judged += 1
        anc = ancestors(node)
        chain = [c for c in info["chain"] if c[0] in CONTAINER_TAGS or c[0] == "admonition"]
        base = "include" if info.get("include") else None
        if len(anc) >= len(chain) and [a[0] for a in anc[len(anc) - len(chain):]] == [c[0] for c in chain]:
            anc = anc[len(anc) - len(chain):]
            seq = [(n.tagname, n.line, c[1]) for (_, n), c in zip(anc, chain)] + [(node.tagname, node.line, info["line"])]
            parents = [base] + chain
        else:
            ctx.count("chain_not_attributable")
            seq = [(node.tagname, node.line, info["line"])]
            parents = [base if base else "unattributed"]
        prev = 0
        for (tag, obs, exp), par in zip(seq, parents):
            d = (obs if obs is not None else -10**6) - exp
            inc = d - prev
            prev = d
            if inc:
                ctx.violation(f"offset:{sig(par)}:delta{inc:+d}" if obs is not None else f"line-missing:{tag}", f"<{tag}> (marker {m}) has line {obs}, it starts on line {exp} of {os.path.basename(exp_src)}; first deviation inside: {sig(par)}", case, {**detail, "marker": m, "info": info, "observed_vs_expected": seq})
                break
            ctx.count("lines_correct:" + ("container" if (tag, obs, exp) != seq[-1] else "leaf"))
    # warnings
    recs = drive.split_warnings(wtext)
    by_role = {}
    for w in recs:
        mm = WARN_ROLE.search(w["msg"])
        if mm:
            by_role.setdefault(mm.group(1), []).append(w)
    for m, info in marks.items():
        if not info.get("warn") and not info.get("warn_text"):
            continue
        ws = by_role.get(info["warn"], []) if info.get("warn") else [w for w in recs if info["warn_text"] in w["msg"].upper()]
        if len(ws) != 1:
            ctx.violation("warning:count", f"{len(ws)} warnings for the unknown role of marker {m}", case, {**detail, "stream": wtext[-800:]})
            continue
        w = ws[0]
        exp_src = info.get("source", main_src)
        node = node_of.get(m)
        if w["line"] == info["line"]:
            ctx.count("warning_lines_correct")
        elif node is not None and w["line"] == node.line:
            ctx.count("warning_line_same_deviation_as_node")  # already reported through the node, same mechanism
        elif node is None and info.get("warn_text") and w["line"] is not None and (w["line"] - info["line"]) in {
                node_of[m2].line - i2["line"] for m2, i2 in marks.items() if m2 in node_of and node_of[m2].line is not None and i2["chain"] == info["chain"] and i2.get("source") == info.get("source")}:
            ctx.count("warning_line_same_deviation_as_sibling_nodes")  # a construct without a node of its own: the container's deviation is already reported through its siblings
        else:
            ctx.violation("warning:line-differs-from-node-and-truth", f"warning for marker {m} reports line {w['line']}, the construct is on line {info['line']} of {os.path.basename(exp_src)} and its node says {getattr(node, 'line', None)}", case, {**detail, "marker": m, "info": info, "warning": w})
        if os.path.basename(w["src"]) != os.path.basename(exp_src):
            ctx.violation("source:warning" + (":include" if info.get("include") else ""), f"warning for marker {m} reports source {w['src']}, expected {exp_src}", case, {**detail, "marker": m})
    return judged


def eval_case(ctx, case):
    files = {}
    if case["kind"] == "struct":
        text, marks = build_struct(case)
    elif case["kind"] == "grammar":
        g = G.Gen(random.Random(case["seed"]), blocks=case.get("blocks"), inlines=["em", "strong", "code", "url"], max_depth=case.get("depth", 4))
        text, marks = g.document(2, 6)
    elif case["kind"] == "include":
        text, marks, files = build_include(case)
    else:
        raise ValueError(case["kind"])
    if case.get("lead"):
        # empty lines in front of everything are lines like any other
        k = case["lead"]
        text = "\n" * k + text
        for mk in marks.values():
            if "source" not in mk:
                mk["line"] += k
                mk["chain"] = [[c[0], c[1] + k] + c[2:] for c in mk["chain"]]
    d = TMP
    for fn, body in files.items():
        with open(os.path.join(d, fn), "w", encoding="utf8", newline="") as f:
            f.write(body)
    src = os.path.join(d, "doc.md")
    detail = {"text": text, "files": files}
    EXTS = ["colon_fence", "deflist", "fieldlist", "dollarmath", "attrs_block", "attrs_inline", "tasklist"]
    try:
        if case.get("front_end") == "sphinx":
            text = text.replace("{class} cls-x", "{rst-class} cls-x")  # in Sphinx 'class' is the Python domain's directive; docutils' one is registered as rst-class
            detail["text"] = text
            # the same ground truth through the Sphinx front end: node lines from the read doctree, warning paths and lines from Sphinx' warning stream
            b = drive.SphinxBuild({"index.md": text, **files}, conf={"myst_enable_extensions": EXTS, "exclude_patterns": ["inc*.md"]}, builder="dummy")
            for mk in marks.values():
                if str(mk.get("source", "")).startswith(TMP + os.sep):
                    mk["source"] = os.path.join(b.src, os.path.basename(mk["source"]))
            try:
                b.build()
                doc = b.doctree("index")
                src = os.path.join(b.src, "index.md")
                lines = []
                for r in b.stream_records():  # the warning stream: what the user sees after Sphinx' handler-level filters
                    lines.append(f"{os.path.join(b.src, r['path']) if r['path'] else src}:{r['line'] if r['line'] is not None else ''}: (WARNING/2) {r['msg']}")
                wtext = "\n".join(lines)
            finally:
                b.close()
            ctx.count("sphinx_cases")
        else:
            doc, wtext = drive.parse(text, source_path=src, myst_enable_extensions=EXTS, doctitle_xform=False)
    except Exception as e:  # noqa: BLE001
        ctx.count("no_document:" + type(e).__name__)
        return 0
    n = judge(ctx, case, text, marks, doc, wtext, src, detail)
    ctx.count("cases_judged")
    ctx.count("markers_judged", n)
    return n


# ------------------------------------------------------------------------------------------- includes


R_END = {"own-line": "<!-- END -->", "after-text": "tail <!-- END -->", "indented": "  <!-- END -->", "mid-line": "tail <!-- END --> more"}


def build_include(case):
    """Main document with include directives; each included file carries its own markers with lines relative to itself."""
    g = G.Gen(random.Random(0))
    parts = [leaf(g, "para")]
    files = {}
    marks_extra = {}
    for i, inc in enumerate(case["includes"]):
        fn = f"inc{i}.md"
        body = []
        # file: pre-lines, then marked leaves
        segs = []
        for j in range(inc["nleaves"]):
            segs.append(leaf(g, inc["leaves"][j % len(inc["leaves"])]))
        ff = G.join(segs)
        lines = list(ff.lines)
        opts = []
        lo, hi = 0, len(lines)
        kind = inc["opt"]
        pre = [f"skipped line {k}" for k in range(inc.get("pre", 0))]
        # where the start marker sits on its line (the text after it on that line is the first included line)
        start_marker = {"own-line": "<!-- START -->", "after-text": "lead text <!-- START -->", "indented": "  <!-- START -->", "mid-line": "lead <!-- START --> trailing words"}[inc.get("marker", "own-line")]
        if kind == "start-line":
            lines = pre + [""] + lines
            ff.shifted(len(pre) + 1)
            opts = [f":start-line: {len(pre) + 1}"]
            lo = len(pre) + 1
        elif kind == "start-after":
            lines = pre + [start_marker, ""] + lines
            ff.shifted(len(pre) + 2)
            opts = [":start-after: <!-- START -->"]
        elif kind == "end-before":
            lines = lines + ["", "<!-- END -->", "dropped"]
            opts = [":end-before: <!-- END -->"]
        elif kind == "end-line":
            lines = lines + ["", "dropped tail"]
            opts = [f":end-line: {len(lines) - 2}"]
        elif kind == "heading-offset":
            opts = [":heading-offset: 1"]
        elif kind == "both":
            lines = pre + [start_marker, ""] + lines + ["", R_END[inc.get("marker", "own-line")], "dropped"]
            ff.shifted(len(pre) + 2)
            opts = [":start-after: <!-- START -->", ":end-before: <!-- END -->"]
        nested = inc.get("nested") and kind in ("plain", "start-line", "start-after", "heading-offset")
        if nested:
            # the included file itself includes another file at its end
            fn2 = f"inc{i}n.md"
            f2 = leaf(g, "para")
            files[fn2] = "\n".join(f2.lines) + "\n"
            for mk in f2.marks:
                marks_extra[mk["m"]] = {"line": mk["off"] + 1, "kind": mk["kind"], "chain": [], "warn": mk.get("warn"), "source": os.path.join(TMP, fn2), "include": "nested"}
            lines = lines + ["", "```{include} " + fn2, "```"]
        files[fn] = "\n".join(lines) + ("\n" if inc.get("final_nl", True) else "")
        for mk in ff.marks:
            marks_extra[mk["m"]] = {"line": mk["off"] + 1, "kind": mk["kind"], "chain": [[c[0], c[1] + 1] + c[2:] for c in mk["chain"]], "warn": mk.get("warn"), "source": os.path.join(TMP, fn), "include": kind}
        d = G.Frag(["```{include} " + fn] + opts + ["```"], [], tick=3)
        for c in reversed(inc.get("chain", [])):
            d = put(g, d, c)
        parts.append(d)
        parts.append(leaf(g, "para"))
    text, marks = finish(G.join(parts))
    marks.update(marks_extra)
    return text, marks, files


# ------------------------------------------------------------------------------------------- workload


def layouts(quick):
    out = []
    for style in ("none", "colon", "dash", "colon-bad", "dash-bad"):
        for nblank in (0, 1, 2):
            if style == "none" and nblank == 2:
                continue
            for tail in (0, 1):
                for extra in ((0,) if quick else (0, 2)):
                    out.append([style, nblank, tail, extra])
    return out


def containers(quick):
    cs = [["quote"], ["bullet"], ["ordered"], ["div", 0], ["div", 1]]
    for lay in layouts(quick):
        cs.append(["tick"] + lay)
        cs.append(["colon"] + lay)
    cs += [["class", 0, 0, 0], ["class", 1, 0, 0], ["class", 0, 1, 1], ["class", 1, 2, 0]]
    cs.append(["tick", "none", 0, 0, 0, True])
    cs.append(["colon", "none", 0, 1, 0, True])
    return cs


def run_shard(ctx):
    R = ctx.rng
    quick = ctx.tier == "quick"
    cs = containers(quick)
    # 1. deeper random nestings
    n_r = 300 if quick else 20000
    for i in range(n_r):
        case = {"kind": "struct", "chain": [R.choice(cs) for _ in range(R.randint(3, 5))], "leaf": R.choice(LEAVES), "lead": R.choice([0, 0, 0, 1, 2])}
        eval_case(ctx, case)
        ctx.case(("struct", repr(case)), True)
        if (i & 0x3F) == 0 and ctx.time_left() < ctx.budget_s * 0.85:
            break
    # 1b. the same nestings through the Sphinx front end
    for i in range(12 if quick else 1200):
        case = {"kind": "struct", "chain": [R.choice(cs) for _ in range(R.randint(1, 4))], "leaf": R.choice(LEAVES), "front_end": "sphinx", "lead": R.choice([0, 0, 1, 3])}
        eval_case(ctx, case)
        ctx.case(("struct-sphinx", repr(case)), True)
        if ctx.time_left() < ctx.budget_s * 0.75:
            break
    # 2. includes
    n_i = 300 if quick else 20000
    for i in range(n_i):
        incs = []
        for _ in range(R.randint(1, 3)):
            incs.append({"opt": R.choice(["plain", "plain", "start-line", "end-line", "start-after", "end-before", "heading-offset", "both"]), "nleaves": R.randint(1, 3), "leaves": [R.choice(["para", "heading", "fence", "list", "target"]) for _ in range(3)],
                         "pre": R.randint(0, 3), "marker": R.choice(["own-line", "own-line", "after-text", "indented", "mid-line"]), "nested": R.random() < 0.2, "final_nl": R.random() < 0.8, "chain": [R.choice(cs) for _ in range(R.choice([0, 0, 1, 2]))]})
        case = {"kind": "include", "includes": incs}
        if i % 25 == 3:
            case["front_end"] = "sphinx"
        eval_case(ctx, case)
        ctx.case(("include", repr(case)), True)
        ctx.count("include_cases")
        if i == 0:
            ctx.sample(case)
        if (i & 0x3F) == 0 and ctx.time_left() < ctx.budget_s * 0.7:
            break
    # 3. grammar documents
    n_g = 400 if quick else 30000
    for i in range(n_g):
        case = {"kind": "grammar", "seed": R.getrandbits(48), "depth": R.randint(2, 5),
                "blocks": ["para", "para", "atx", "setext", "bullet", "ordered", "quote", "icode", "fence", "fence_lang", "target", "directive", "colon_directive", "div", "table", "deflist", "attrs_para", "tasklist", "fieldlist"]}
        k = eval_case(ctx, case)
        ctx.case(("grammar", case["seed"]), bool(k))
        if (i & 0x3F) == 0 and ctx.time_left() < ctx.budget_s * 0.55:
            break
    # 4. exhaustive nestings with the remaining budget
    maxd = 2 if quick else 3
    idx = n = 0
    complete = True
    for depth in range(0, maxd + 1):
        for chain in itertools.product(range(len(cs)), repeat=depth):
            for lf in LEAVES:
                idx += 1
                if idx % ctx.nshards != ctx.shard:
                    continue
                case = {"kind": "struct", "chain": [cs[i] for i in chain], "leaf": lf}
                eval_case(ctx, case)
                n += 1
                if (n & 0x7F) == 0 and ctx.out_of_time():
                    complete = False
                    break
            if not complete:
                break
        if not complete:
            break
    ctx.case(n=n)
    ctx.enumerated(n)
    ctx.subrun("exhaustive_nestings", exhaustive=complete, max_depth=maxd, container_layouts=len(cs), leaves=len(LEAVES), cases=n)
    ctx.sample({"kind": "struct", "chain": [["quote"], ["tick", "colon", 1, 0, 0]], "leaf": "para"})


def finalize(m, tier):
    c = m["counters"]
    for k, lo in (("cases_judged", 3000), ("markers_judged", 8000), ("lines_correct:leaf", 5000), ("lines_correct:container", 5000), ("warning_lines_correct", 2000), ("include_cases", 500), ("sphinx_cases", 100)):
        if c.get(k, 0) < lo:
            m["inconclusive"].append(f"monitor observed only {c.get(k, 0)} '{k}' events (< {lo})")
    nodoc = sum(v for k, v in c.items() if k.startswith("no_document:"))
    if nodoc > 0.05 * max(1, m["evaluations"]):
        m["inconclusive"].append(f"{nodoc} pipelines produced no document (> 5%)")
    if c.get("marker_not_located", 0) > 0.05 * max(1, c.get("markers_judged", 0)):
        m["inconclusive"].append("more than 5% of the markers could not be located in the doctree")
    mon.require_reach(m, ANCHORS)
