"""C08 - directive text splits into arguments, options, body without loss or leakage.

Reference-model monitor: an independent re-statement of the partition (written from the documentation in
directives.py's module docstring and the property statement) runs beside parse_directive_text for every
(directive class, first line, content) triple. Programs = every directive class in docutils' registry and every class
a live Sphinx application registers (enumerated at run time and reported).
"""

from __future__ import annotations

import itertools
import re
from textwrap import dedent

from .. import core

PROP = "C08"
RULE = (
    "(directive class, first line, content[, additional options]) triples: contents enumerated exhaustively from a "
    "per-class line vocabulary (valid/unknown/invalid/empty option, blank, text, '---', '----', indented option, "
    "':not option', 'k: v') up to the tier's length for every registry class (distinct by construction), random "
    "contents to length 12 and option-style interchange pairs (distinct by hash); every option of every class x every sample value and the empty value in both option "
    "styles (exhaustive); the registry includes autodoc & co and two harness classes whose option spec answers through __getitem__ / __missing__; non-trivial = content has >= 2 lines"
)
ASSUME = [
    "key/value extraction inside the option block is the tokenizer's business (C07); the model reuses options_to_items "
    "for the raw pairs and decides everything else (which lines are options, body, offset, validation, priority) itself",
    "body_offset is judged only when the body does not start on the directive's first line (the statement does not define it there)",
    "the closing delimiter line of a '---' block consists of dashes only (no trailing characters)",
]
SHARDS = {"quick": 16, "thorough": 16}
BUDGET_S = {"quick": 60, "thorough": 1200}

CLASSES: dict[str, type] = {}
VOCAB: dict[str, dict] = {}
SAMPLES = ["10\u00a0km", "Mount\u3000Fuji", "a\u2009b", "x", "1", "10", "10px", "50%", "left", "center", "a b", "python", "name", "0", "-1", "1.5", "auto", "yes", "1,2", "1 2", "a, b", "utf-8", "*", "html"]


def collect_classes():
    """Every directive class docutils registers + everything a live Sphinx app adds (domains included)."""
    import importlib
    import shutil
    import tempfile

    from docutils.parsers.rst import directives as D

    out = {}
    for name, (modname, clsname) in sorted(D._directive_registry.items()):
        try:
            mod = importlib.import_module("docutils.parsers.rst.directives." + modname)
            out["docutils:" + name] = getattr(mod, clsname)
        except Exception:  # noqa: BLE001
            pass
    try:
        from sphinx.application import Sphinx
        from sphinx.util.docutils import docutils_namespace, patch_docutils
        import io

        tmp = tempfile.mkdtemp(prefix="c08_")
        with open(tmp + "/conf.py", "w") as f:
            f.write("extensions=['myst_parser', 'sphinx.ext.autodoc', 'sphinx.ext.autosummary', 'sphinx.ext.todo', 'sphinx.ext.ifconfig', 'sphinx.ext.doctest', 'sphinx.ext.graphviz', 'sphinx.ext.inheritance_diagram', 'sphinx.ext.mathjax']\n")
        with open(tmp + "/index.md", "w") as f:
            f.write("# t\n")
        with patch_docutils(tmp), docutils_namespace():
            app = Sphinx(tmp, tmp, tmp + "/_o", tmp + "/_d", "dummy", status=io.StringIO(), warning=io.StringIO())
            for name, cls in sorted(D._directives.items()):
                if isinstance(cls, type):
                    out.setdefault("sphinx:" + name, cls)
            for dname, dom in sorted(app.registry.domains.items()):
                for name, cls in sorted(dom.directives.items()):
                    if isinstance(cls, type):
                        out[f"domain:{dname}:{name}"] = cls
        shutil.rmtree(tmp, ignore_errors=True)
    except Exception as e:  # noqa: BLE001
        out["__sphinx_error__"] = repr(e)
    # option specs that answer through __getitem__ / __missing__ rather than by holding keys (Sphinx' autodoc does this; third-party directives use defaultdict)
    from collections import defaultdict

    from docutils.parsers.rst import Directive
    from docutils.parsers.rst import directives as DD

    class _ConvertAll(Directive):
        has_content = True
        optional_arguments = 1
        final_argument_whitespace = True
        option_spec = defaultdict(lambda: DD.unchanged, {"width": DD.length_or_percentage_or_unitless, "flagged": DD.flag})

    class _Missing(dict):
        def __missing__(self, key):
            if key.startswith("x-"):
                return DD.unchanged_required
            raise KeyError(key)

    class _PrefixSpec(Directive):
        has_content = True
        option_spec = _Missing({"class": DD.class_option})

    out["mv:convert-all"] = _ConvertAll
    out["mv:prefix-spec"] = _PrefixSpec
    return out


def build_vocab(cls):
    """Per-class facts the generator needs: a valid, a second valid, an invalid and a flag option line."""
    from docutils.parsers.rst.directives import flag

    spec = cls.option_spec or {}
    valid, invalid, flagk = [], None, None
    for k, conv in sorted(spec.items(), key=lambda kv: str(kv[0])):
        if not isinstance(k, str) or not k or not re.fullmatch(r"[A-Za-z][\w-]*", k):
            continue
        if conv is flag:
            flagk = flagk or k
            continue
        ok = bad = None
        for v in SAMPLES:
            try:
                conv(v)
                ok = ok if ok is not None else v
            except (ValueError, TypeError):
                bad = bad if bad is not None else v
            except Exception:  # noqa: BLE001
                pass
        if ok is not None and len(valid) < 2:
            valid.append((k, ok))
        if bad is not None and invalid is None:
            invalid = (k, bad)
    return {"valid": valid, "invalid": invalid, "flag": flagk}


def setup(ctx):
    global CLASSES, VOCAB
    from docutils.parsers.rst.directives.misc import TestDirective

    CLASSES = collect_classes()
    err = CLASSES.pop("__sphinx_error__", None)
    if err:
        ctx.note_inconclusive(f"could not enumerate Sphinx directive classes: {err}")
    CLASSES = {k: v for k, v in CLASSES.items() if not issubclass(v, TestDirective)}
    VOCAB = {k: build_vocab(v) for k, v in CLASSES.items()}


def lines_for(key):
    v = VOCAB[key]
    out = []
    if v["valid"]:
        k, val = v["valid"][0]
        out += [f":{k}: {val}", f":{k}:", f"  :{k}: {val}", f"{k}: {val}"]
        if len(v["valid"]) > 1:
            out.append(f":{v['valid'][1][0]}: {v['valid'][1][1]}")
    else:
        out += [":class: x", ":class:", "  :class: x", "class: x"]
    if v["invalid"]:
        out.append(f":{v['invalid'][0]}: {v['invalid'][1]}")
    if v["flag"]:
        out.append(f":{v['flag']}:")
    kk = v["valid"][0][0] if v["valid"] else "class"
    out += [f":{kk}: |", f":{kk}: >-", f"{kk}: |-", ":name: >"]  # (no keep-chomping '+': whether a blank line before the closing '---' belongs to the block is not something the property states)
    out += [":nope: 1", ":x-opt: v", "", "text", "---", "----", ":not option"]
    return out


# ------------------------------------------------------------------------------------------- model


class ModelResult:
    pass


SIMPLE_OPT = re.compile(r"([A-Za-z][A-Za-z0-9_-]*):(?: +([^ \t\n\r](?:[^\t\n\r]*[^ \t\n\r])?))? *$")


def lf_lines(text):
    """Content LINES: separated by line feeds only (form feeds, U+2028, NEL ... are characters of a line)."""
    L = text.split("\n")
    if L and L[-1] == "":
        L.pop()
    return L


SEP_LINES = ["form\x0cfeed", "ls\u2028sep", "nel\x85x", "fs\x1cx gs\x1dx rs\x1ex", "vt\x0bx", "\x0c", "ps\u2029x", "  indented\x0cff"]


def model(cls, first, content, additional):
    """Independent re-statement of the split. Returns a ModelResult or ('error', reason)."""
    from docutils.parsers.rst.directives import flag

    from myst_parser.parsers.options import TokenizeError, options_to_items

    L = lf_lines(content)
    r = ModelResult()
    r.opt_lines = None
    body, off = L, 0
    spec = cls.option_spec
    if spec:
        if content.startswith("---"):
            k = next((i for i in range(1, len(L)) if re.match(r"-{3,}", L[i])), None)
            if k is None:
                r.opt_lines, body, off = L[1:], [], len(L)
            else:
                r.opt_lines, body, off = L[1:k], L[k + 1 :], k + 1
            # between two delimiter lines every option line is a complete line; without a closing delimiter the block is the rest of the content as
            # handed over (its last line carries no line break), which matters for a clipped block scalar in last position
            block = dedent("\n".join(r.opt_lines) + ("\n" if r.opt_lines and k is not None else ""))
        elif content.lstrip().startswith(":"):
            j = 0
            while j < len(L) and L[j].lstrip().startswith(":"):
                j += 1
            r.opt_lines, body, off = L[:j], L[j:], j
            block = "\n".join(l.lstrip()[1:] for l in L[:j])
    r.has_block = r.opt_lines is not None
    # option values + validation
    r.tokenize_failed = False
    r.options, r.n_invalid, r.unknown, r.comments = {}, 0, [], False
    raw = {}
    if r.has_block:
        try:
            items, st = options_to_items(block)
            raw = dict(items)
            r.comments = st.has_comments
        except TokenizeError:
            r.tokenize_failed = True
    if spec and not r.tokenize_failed:
        merged = {**(additional or {}), **raw}
        for name, value in merged.items():
            try:
                conv = spec[name]  # the directive's own lookup (docutils' rule): a spec may answer through __getitem__ / __missing__
            except KeyError:
                r.unknown.append(name)
                continue
            value = value or None
            if conv is flag:
                value = None
            try:
                r.options[name] = conv(value)
            except Exception:  # noqa: BLE001 - a converter may reject a value in any way (docutils' figwidth_value(None) raises AttributeError)
                r.n_invalid += 1
    # arguments
    r.noargs = not (cls.required_arguments or cls.optional_arguments)
    r.merged_first = False
    r.split_warning = False
    r.arg_error = False
    r.arguments = []
    if r.noargs:
        if first.strip():
            r.split_warning = r.has_block and any(body)
            body = [first] + body
            off = None
            r.merged_first = True
    else:
        req, opt = cls.required_arguments, cls.optional_arguments
        args = first.split()
        if len(args) < req:
            r.arg_error = True
        elif len(args) > req + opt:
            if cls.final_argument_whitespace:
                args = first.split(None, req + opt - 1)
            else:
                r.arg_error = True
        r.arguments = args
    if body and not body[0].strip():
        body = body[1:]
        off = None if off is None else off + 1
    r.body, r.offset = body, off
    r.content_warning = bool(body) and not cls.has_content
    return r


def rstrip_list(b):
    b = list(b)
    if not any(x.strip() for x in b):
        return []  # a body of only blank lines carries no content (the directive receives an empty body)
    while b and b[-1] == "":
        b.pop()
    return b


def eq_opts(a, b):
    try:
        return a == b or repr(a) == repr(b)
    except Exception:  # noqa: BLE001
        return repr(a) == repr(b)


def layout_class(content, m):
    """Structural description of the witness, for mechanism keys."""
    parts = []
    if m.has_block:
        parts.append("dash" if content.startswith("---") else "colon")
    else:
        parts.append("noblock")
    if content.endswith("\n") and (content.endswith("\n\n") or content.splitlines()[-1:] == [""]):
        parts.append("ends-blank")
    return "+".join(parts)


def eval_split(ctx, case):
    from docutils.parsers.rst.states import MarkupError

    from myst_parser.parsers.directives import parse_directive_text
    from myst_parser.warnings_ import MystWarnings

    cls = CLASSES.get(case["cls"])
    if cls is None:
        ctx.note_inconclusive(f"directive class {case['cls']} not available for replay")
        return
    first, content, additional = case["first"], case["content"], case.get("additional")
    try:
        m = model(cls, first, content, additional)
    except Exception as e:  # noqa: BLE001  (model failure = harness problem, never a verdict on the code)
        ctx.count("model_failed")
        return
    try:
        r = parse_directive_text(cls, first, content, additional_options=additional)
        err = None
    except MarkupError as e:
        r, err = None, e
    except Exception as e:  # noqa: BLE001
        sig = core.exc_signature(e)
        ctx.violation(f"raises:{sig['type']}:{sig['myst']}", f"parse_directive_text raised {sig['type']}: {sig['msg']}", case, sig)
        return
    if m.arg_error != (err is not None):
        ctx.violation("arguments:count-enforcement", f"argument-count error expected={m.arg_error} observed={err is not None}", case, {"required": cls.required_arguments, "optional": cls.optional_arguments, "faw": cls.final_argument_whitespace})
        return
    if err is not None:
        ctx.count("arg_errors")
        return
    lay = layout_class(content, m)
    # option blocks made only of simple one-line 'key: plain value' entries have an obvious reading that needs no tokenizer: the unvalidated split must return it
    if m.has_block and m.opt_lines is not None:
        ol = [l if content.startswith("---") else l.lstrip()[1:] for l in m.opt_lines]
        simple = []
        for l in ol:
            mm = SIMPLE_OPT.match(l)
            if mm and (mm.group(2) or "") in ("|", ">", "|-", ">-", "|+", ">+"):
                # a block-scalar indicator with no indented line after it (every entry here starts at column 0): an empty value, and the next entry is an entry
                simple.append((mm.group(1), ""))
                continue
            if not mm or (mm.group(2) or "")[:1] in "&*!|>'\"%@`{}[],-?#:" or " #" in (mm.group(2) or "") or ": " in (mm.group(2) or "") or (mm.group(2) or "").endswith(":"):
                simple = None
                break
            simple.append((mm.group(1), mm.group(2) or ""))
        if simple and len({k for k, _ in simple}) == len(simple):
            from myst_parser.parsers.options import TokenizeError as _TE
            from myst_parser.parsers.options import options_to_items as _o2i

            try:
                got_items = [(k, v) for k, v in _o2i("\n".join(ol))[0]]
            except _TE as e:
                got_items = f"TokenizeError: {e}"
            ctx.count("simple_option_blocks_checked")
            if got_items != simple:
                ctx.violation("options:simple-key-value-lines-misread", f"the option lines {ol!r} are plain 'key: value' entries {simple!r}; the option reader gives {got_items!r}", case)
                return
    # the same text split WITHOUT option validation (validate_options=False: the block is read as YAML): arguments, body and offset are the same split
    if case.get("novalidate") or (len(content) + len(first)) % 5 == 0:
        try:
            r2 = parse_directive_text(cls, first, content, validate_options=False, additional_options=additional)
        except MarkupError:
            r2 = None
        except Exception as e:  # noqa: BLE001
            sig = core.exc_signature(e)
            ctx.violation(f"raises:novalidate:{sig['type']}:{sig['myst']}", f"parse_directive_text(validate_options=False) raised {sig['type']}: {sig['msg']}", case, sig)
            return
        ctx.count("novalidate_compared")
        if r2 is None:
            ctx.violation("novalidate:argument-error-only-without-validation", "the argument count is only rejected when validate_options=False", case)
        elif r2.arguments != r.arguments or rstrip_list(r2.body) != rstrip_list(r.body) or (rstrip_list(r.body) and r2.body_offset != r.body_offset):
            ctx.violation(f"novalidate:split-differs:{lay}", f"validate_options=False splits into arguments {r2.arguments!r} body {r2.body!r} offset {r2.body_offset}; with validation {r.arguments!r} {r.body!r} {r.body_offset}", case)
        elif m.has_block and not m.tokenize_failed and isinstance(r2.options, dict):
            try:
                import yaml as _y

                blk = "\n".join(m.opt_lines) if content.startswith("---") else "\n".join(l.lstrip()[1:] for l in m.opt_lines)
                if content.startswith("---"):
                    if m.opt_lines and any(re.match(r"-{3,}", l) for l in lf_lines(content)[1:]):
                        blk += "\n"  # between two delimiter lines every option line is a complete line (a clipped block scalar keeps its final line break)
                    blk = dedent(blk)
                want = _y.safe_load(blk) or {}
            except Exception:  # noqa: BLE001
                want = None
            if isinstance(want, dict) and r2.options != want:
                ctx.violation("novalidate:options-not-the-yaml-mapping", f"validate_options=False returns options {r2.options!r}; the block as YAML is {want!r}", case)
    if r.arguments != m.arguments:
        ctx.violation("arguments:value", f"arguments {r.arguments!r}, model {m.arguments!r}", case)
    if rstrip_list(r.body) != rstrip_list(m.body):
        ctx.violation(f"body:{lay}", f"body {r.body!r}, model {m.body!r}", case, {"model_options_lines": m.opt_lines})
        return
    if m.offset is not None and rstrip_list(r.body):
        L = lf_lines(content)
        stated = L[r.body_offset :][: len(rstrip_list(r.body))] == rstrip_list(r.body)
        if r.body_offset != m.offset or not stated:
            ctx.violation(f"offset:{lay}:delta{r.body_offset - m.offset:+d}", f"body_offset {r.body_offset}, index of first body line is {m.offset}", case, {"body": r.body})
        else:
            ctx.count("offset_checked")
    if not m.tokenize_failed:
        if set(r.options) != set(m.options) or any(not eq_opts(r.options[k], m.options[k]) for k in m.options):
            key = "options:priority-over-additional" if additional and any(k in (additional or {}) for k in set(r.options) | set(m.options)) and _differs_on_additional(r.options, m.options, additional) else "options:value-or-key"
            ctx.violation(key, f"options {r.options!r}, model {m.options!r}", case, {"additional": additional})
        for k, v in r.options.items():
            if k in m.options and type(v) is not type(m.options[k]):
                ctx.violation("options:converter-not-applied", f"option {k!r} has type {type(v).__name__}, option_spec gives {type(m.options[k]).__name__}", case)
    # warnings: none lost, none spurious
    w_opt = [w for w in r.warnings if w.type == MystWarnings.DIRECTIVE_OPTION]
    w_unknown = [w for w in w_opt if w.msg.startswith("Unknown option keys")]
    w_invalid = [w for w in w_opt if w.msg.startswith("Invalid option value")]
    w_format = [w for w in w_opt if w.msg.startswith("Invalid options format")]
    w_parse = [w for w in r.warnings if w.type == MystWarnings.DIRECTIVE_PARSING]
    d = {"warnings": [w.msg for w in r.warnings]}
    if m.tokenize_failed:
        # whatever survives an unreadable option block (externally supplied defaults at most) has still gone through the directive's option spec
        from docutils.parsers.rst.directives import flag as _flag

        for k_, v_ in r.options.items():
            try:
                conv_ = cls.option_spec[k_]
                want_ = conv_(None if (conv_ is _flag or not (additional or {}).get(k_)) else (additional or {}).get(k_))
                ok_ = k_ in (additional or {}) and eq_opts(v_, want_) and type(v_) is type(want_)
            except Exception:  # noqa: BLE001
                ok_ = False
            if not ok_:
                ctx.violation("options:unvalidated-after-unreadable-block", f"the option block could not be read, yet the result carries {k_!r}: {v_!r}, which is not a value the directive's option spec produced (additional options {additional!r})", case, d)
                break
        if len(w_format) != 1:
            ctx.violation("warnings:bad-option-block-not-reported-once", "an untokenizable option block must give exactly one warning", case, d)
    else:
        if len(w_invalid) != m.n_invalid:
            ctx.violation("warnings:invalid-option-count", f"{len(w_invalid)} invalid-value warnings, model expects {m.n_invalid}", case, d)
        if (len(w_unknown) == 1) != bool(m.unknown) or len(w_unknown) > 1 or (m.unknown and not all(repr(u) in w_unknown[0].msg for u in m.unknown)):
            ctx.violation("warnings:unknown-option-report", f"unknown options {m.unknown!r} not reported exactly once each", case, d)
        if any(u in r.options for u in m.unknown):
            ctx.violation("options:unknown-kept", "an unknown option was kept", case, d)
    n_content_w = sum(1 for w in w_parse if w.msg.startswith("Has content"))
    # a body made of blank lines only is not judged (it carries no content)
    if (any(l.strip() for l in m.body) or not m.body) and n_content_w != int(m.content_warning):
        ctx.violation("warnings:content-not-permitted", f"'Has content' warnings {n_content_w}, model {int(m.content_warning)}", case, d)
    ctx.count("splits_compared")
    if m.has_block:
        ctx.count("with_option_block")
    if m.merged_first:
        ctx.count("first_line_merged")


def _differs_on_additional(got, exp, additional):
    for k in additional:
        if (k in got) != (k in exp) or (k in got and not eq_opts(got[k], exp[k])):
            return True
    return False


def eval_interchange(ctx, case):
    """The ':key: value' and '---' spellings of the same options give identical results."""
    from docutils.parsers.rst.states import MarkupError

    from myst_parser.parsers.directives import parse_directive_text

    cls = CLASSES.get(case["cls"])
    if cls is None or not cls.option_spec:
        return
    opts, rest, first = case["opts"], case["rest"], case["first"]
    colon = "\n".join([f":{k}: {v}".rstrip() for k, v in opts] + rest)
    dash = "\n".join(["---"] + [f"{k}: {v}".rstrip() for k, v in opts] + [case.get("closer", "---")] + rest)
    res = []
    for content in (colon, dash):
        try:
            r = parse_directive_text(cls, first, content)
            res.append((r.arguments, {k: repr(v) for k, v in r.options.items()}, rstrip_list(r.body), sorted(w.msg for w in r.warnings)))
        except MarkupError as e:
            res.append(("MarkupError", str(e)))
        except Exception as e:  # noqa: BLE001
            ctx.violation(f"raises:{type(e).__name__}", f"{e!r}", case)
            return
    ctx.count("interchange_pairs")
    if res[0] != res[1]:
        what = "body" if res[0][:2] == res[1][:2] and res[0][2] != res[1][2] else "options-or-warnings"
        ctx.violation(f"interchange:{what}", "':' style and '---' style of the same options differ", case, {"colon": res[0], "dash": res[1], "colon_text": colon, "dash_text": dash})


def eval_e2e(ctx, case):
    """End to end: a plain fence named in fence_as_directive receives its block attributes ({.cls #id k=v}) as
    externally supplied defaults; options written in the fence body take priority over them."""
    from docutils import nodes

    from .. import drive

    attrs, block = case["attrs"], case["block"]
    a = " ".join(([f".{attrs['class']}"] if "class" in attrs else []) + ([f"#{attrs['id']}"] if "id" in attrs else []))
    lines = ([f"{{{a}}}"] if a else []) + ["```note"] + [f":{k}: {v}" for k, v in block.items()] + (["", "body text"]) + ["```"]
    text = "\n".join(lines) + "\n"
    try:
        doc, w = drive.parse_pre(text, myst_enable_extensions=["attrs_block"], myst_fence_as_directive=["note"])
    except Exception as e:  # noqa: BLE001
        ctx.violation(f"e2e:raises:{type(e).__name__}", f"{e!r}", case, {"text": text})
        return
    adm = next(iter(doc.findall(nodes.note)), None)
    ctx.count("e2e_fence_as_directive")
    if adm is None:
        ctx.violation("e2e:fence-not-run-as-directive", "a fence named in fence_as_directive did not produce the directive's node", case, {"text": text, "doctree": doc.pformat()[:800]})
        return
    exp_classes = [block["class"]] if "class" in block else ([attrs["class"]] if "class" in attrs else [])
    exp_name = block.get("name", attrs.get("id"))
    got_classes = [c for c in adm.get("classes", [])]
    got_names = adm.get("names", [])
    if got_classes != exp_classes or got_names != ([exp_name.lower()] if exp_name else []):
        key = "options:priority-over-additional" if ("class" in block and "class" in attrs) or ("name" in block and "id" in attrs) else "e2e:fence-attributes-not-passed"
        ctx.violation(key, f"fence attributes {attrs} + block options {block}: node has classes {got_classes} names {got_names}; expected classes {exp_classes} name {exp_name}", case, {"text": text, "warnings": w})
    if "[myst." in w:
        ctx.violation("e2e:spurious-warning", f"valid fence attributes / options produced a warning: {w.strip()[:160]}", case, {"text": text})
    if "body text" not in adm.astext():
        ctx.violation("e2e:body-lost", "the fence body was not rendered inside the directive", case, {"text": text})


def eval_case(ctx, case):
    if case["kind"] == "interchange":
        eval_interchange(ctx, case)
    elif case["kind"] == "e2e":
        eval_e2e(ctx, case)
    else:
        eval_split(ctx, case)


# ------------------------------------------------------------------------------------------- workload

FIRSTS = ["", "one", "many words here", '"quoted arg" x', "two  spaces\tand tab here", "a\u00a0b  c   d e", "  lead and trail  ", " ", "\t", "  \t "]
REPRESENTATIVE = ["docutils:note", "docutils:admonition", "docutils:image", "docutils:code", "docutils:container", "docutils:figure", "docutils:include", "sphinx:figure-md", "sphinx:code-block", "domain:py:function"]


def run_shard(ctx):
    R = ctx.rng
    quick = ctx.tier == "quick"
    keys = sorted(CLASSES)
    ctx.notes["directive_classes"] = len(keys)
    ctx.notes["directive_classes_sample"] = keys[:5] + keys[-5:]
    ctx.count("programs", len(keys) if ctx.shard == 0 else 0)
    # 0. every option of every directive class x every sample value (and the empty value), in both option styles: a converter that rejects the
    #    value in whatever way gives one 'Invalid option value' warning and the rest of the directive is unharmed
    k0 = n0 = 0
    for key in keys:
        spec = CLASSES[key].option_spec or {}
        for oname in sorted(x for x in spec if isinstance(x, str) and re.fullmatch(r"[A-Za-z][\w-]*", x)):
            for v in [""] + SAMPLES:
                k0 += 1
                if k0 % ctx.nshards != ctx.shard:
                    continue
                if (v[:1] in "&*!|>'\"%@`{}[],-?#:" and v != "") or ": " in v or " #" in v:
                    continue  # values that YAML reads as something else than a plain scalar: C07's business
                first = "arg" if (CLASSES[key].required_arguments or CLASSES[key].optional_arguments) else ""
                for content in (f":{oname}: {v}".rstrip() + "\n\nbody line\n", f"---\n{oname}: {v}".rstrip() + "\nclass: c\n---\nbody line\n"):
                    eval_split(ctx, {"kind": "split", "cls": key, "first": first, "content": content})
                    n0 += 1
                ctx.count("option_value_pairs")
    ctx.case(n=n0)
    ctx.subrun("every_option_every_sample_value", exhaustive=True, samples=len(SAMPLES) + 1, cases=n0)
    # 1. exhaustive contents per class
    base_len = 3 if quick else 4
    rep_len = 4 if quick else 5
    idx = n = 0
    complete = True
    seen_sig = set()
    for key in keys:
        voc = lines_for(key)
        maxlen = rep_len if key in REPRESENTATIVE else base_len
        c_ = CLASSES[key]
        sig = (tuple(sorted((str(k_), id(v_)) for k_, v_ in (c_.option_spec or {}).items())), type(c_.option_spec).__name__, c_.required_arguments, c_.optional_arguments, c_.final_argument_whitespace, c_.has_content)
        if sig in seen_sig and key not in REPRESENTATIVE:
            maxlen = min(maxlen, 2)  # a class that splits exactly like one already enumerated (same spec object contents, same argument declaration)
        seen_sig.add(sig)
        for ln in range(0, maxlen + 1):
            for combo in itertools.product(range(len(voc)), repeat=ln):
                idx += 1
                if idx % ctx.nshards != ctx.shard:
                    continue
                lines = [voc[i] for i in combo]
                first = FIRSTS[idx // ctx.nshards % len(FIRSTS)]
                for tail in ("", "\n"):
                    content = "\n".join(lines) + (tail if lines else "")
                    eval_split(ctx, {"kind": "split", "cls": key, "first": first, "content": content})
                    n += 1
                if (n & 0xFFF) == 0 and ctx.time_left() < ctx.budget_s * 0.4:  # the random phases below keep their share
                    complete = False
                    break
            if not complete:
                break
        if not complete:
            break
    ctx.case(n=n)
    ctx.enumerated(n)
    ctx.subrun("exhaustive_contents", exhaustive=complete, max_lines=base_len, max_lines_representative=rep_len, classes=len(keys), cases=n)
    ctx.sample({"kind": "split", "cls": "docutils:note", "first": "", "content": ":class: x\n\ntext\n"})
    # 2. random longer contents with additional options
    n_r = 4000 if quick else 150000
    for i in range(n_r):
        key = R.choice(keys)
        voc = lines_for(key)
        lines = [R.choice(voc) for _ in range(R.randint(0, 12))]
        if R.random() < 0.25:  # characters that str.splitlines() treats as line ends but that are part of a content line
            for _ in range(R.randint(1, 3)):
                lines.insert(R.randint(0, len(lines)), R.choice(SEP_LINES))
            ctx.count("contents_with_non_lf_separators")
        if R.random() < 0.5:  # make an option block likely
            lines.sort(key=lambda l: 0 if l.lstrip().startswith(":") else 1)
            if R.random() < 0.4:
                k = R.randint(0, len(lines))
                lines = ["---"] + [l.lstrip()[1:] if l.lstrip().startswith(":") else l for l in lines[:k]] + [R.choice(["---", "----", "-----", "---"])] + lines[k:]
        content = "\n".join(lines) + R.choice(["", "\n", "\n\n", "\n  \n"])
        additional = None
        v = VOCAB[key]
        if R.random() < 0.4:
            additional = {}
            for k, val in v["valid"]:
                if R.random() < 0.7:
                    additional[k] = R.choice([val, SAMPLES[R.randrange(len(SAMPLES))], ""])
            if v["flag"] and R.random() < 0.3:
                additional[v["flag"]] = ""
            if R.random() < 0.2:
                additional["nope2"] = "1"
        case = {"kind": "split", "cls": key, "first": R.choice(FIRSTS), "content": content, "additional": additional}
        eval_split(ctx, case)
        ctx.case(("split", key, case["first"], content, repr(additional)), len(lines) >= 2)
        if additional:
            ctx.count("with_additional_options")
        if i == 0:
            ctx.sample(case)
        if (i & 0xFF) == 0 and ctx.time_left() < ctx.budget_s * 0.2:
            break
    # 2b. fence_as_directive end to end (attribute block -> additional options), all combinations
    if ctx.shard == 0:
        for ac in (None, "ca"):
            for ai in (None, "ida"):
                for bc in (None, "cb"):
                    for bn in (None, "nb"):
                        case = {"kind": "e2e", "attrs": {**({"class": ac} if ac else {}), **({"id": ai} if ai else {})}, "block": {**({"class": bc} if bc else {}), **({"name": bn} if bn else {})}}
                        eval_e2e(ctx, case)
                        ctx.case(("e2e", repr(case)), True)
    # 3. interchange pairs
    n_i = 1500 if quick else 50000
    for i in range(n_i):
        key = R.choice(keys)
        v = VOCAB[key]
        pool = list(v["valid"]) + ([v["invalid"]] if v["invalid"] else []) + ([(v["flag"], "")] if v["flag"] else []) + [("nope", "1")] + [(k, "") for k, _ in v["valid"][:1]]
        opts = [R.choice(pool) for _ in range(R.randint(1, 4))]
        rest = [R.choice(["", "text", "more text", "  indented", "- list", "> q"]) for _ in range(R.randint(0, 4))]
        if rest and rest[0].lstrip().startswith(":"):
            continue
        case = {"kind": "interchange", "cls": key, "first": R.choice(FIRSTS), "opts": [list(o) for o in opts], "rest": rest, "closer": R.choice(["---", "---", "----", "------"])}
        eval_interchange(ctx, case)
        ctx.case(("ic", key, repr(case)), True)
        if (i & 0xFF) == 0 and ctx.out_of_time():
            break


def finalize(m, tier):
    c = m["counters"]
    for k, lo in (("splits_compared", 10000), ("offset_checked", 1000), ("with_option_block", 1000), ("interchange_pairs", 500), ("with_additional_options", 100), ("programs", 60), ("arg_errors", 10), ("first_line_merged", 10), ("e2e_fence_as_directive", 16)):
        if c.get(k, 0) < lo:
            m["inconclusive"].append(f"monitor observed only {c.get(k, 0)} '{k}' events (< {lo})")
    if c.get("model_failed", 0) > 0.05 * max(1, c.get("splits_compared", 0)):
        m["inconclusive"].append("the reference model could not be applied to > 5% of cases")
