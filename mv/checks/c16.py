"""C16 - HTML-to-AST parser: total, tree-consistent, exact round trip on well-formed HTML.

Monitors: structural invariants on every tree (each element once in walk(), child.parent is container, open-element
stack bottom is the root), handler-event budget + JUMP-event step budget on parse_html.py (termination), exact
round trip on grammar-generated well-formed HTML, strip()/deepcopy() non-interference, find() vs an independent
filter over the generator's own pre-order model. Soup and well-formed cases are interleaved in one process so that
state carried from one parse into the next is observable.
"""

from __future__ import annotations

import itertools
import sys

from .. import core

PROP = "C16"
RULE = (
    "strings: markup soup (vocabulary fragments + character mutations, nesting <= 100) and well-formed HTML from a "
    "grammar (balanced lower-case tags, name=\"value\" attributes, void/self-closing elements, comments, declarations, "
    "PIs, char/entity refs, script/style raw text); exhaustive forests up to the tier's node bound over a small "
    "vocabulary (distinct by construction) + random large ones (distinct by hash); non-trivial = >= 2 nodes"
)
ASSUME = [
    "well-formed = the grammar below (no upper-case names, no non-canonical whitespace inside tags, no valueless or "
    "duplicate attributes, no '\"' in values): html.parser normalises those lexically",
    "entity/character references inside attribute values are a separate class (html.parser unescapes them)",
]
SHARDS = {"quick": 16, "thorough": 16}
BUDGET_S = {"quick": 40, "thorough": 900}

VOID = ["br", "img", "hr", "input", "meta", "wbr", "area", "base", "col", "embed", "link", "param", "source", "track"]  # all fourteen void elements of the documented list
TAGS = ["div", "p", "span", "a", "b", "ul", "li", "x-y", "h1", "table", "section"]


class Steps:
    TOOL = 3

    def __init__(self):
        self.steps = 0
        self.budget = 10**12
        self.events = 0

    def install(self):
        import myst_parser.parsers.parse_html as P

        m = sys.monitoring
        m.use_tool_id(self.TOOL, "c16-steps")
        mon = self

        def on_jump(code, src, dst):
            mon.steps += 1
            mon.events += 1
            if mon.steps > mon.budget:
                mon.budget = 10**12
                raise core.StepBudgetExceeded("jump")

        m.register_callback(self.TOOL, m.events.JUMP, on_jump)

        def codes(obj, seen):
            for v in vars(obj).values():
                f = getattr(v, "__func__", v)
                f = getattr(f, "fget", f)
                c = getattr(f, "__code__", None)
                if c is not None and c.co_filename == P.__file__ and c not in seen:
                    seen.add(c)
                    m.set_local_events(self.TOOL, c, m.events.JUMP)
                if isinstance(v, type) and v.__module__ == P.__name__:
                    codes(v, seen)

        seen: set = set()
        codes(P, seen)
        self.code_objects = len(seen)
        return self


STEPS: Steps | None = None


def setup(ctx):
    global STEPS
    STEPS = Steps().install()


# ------------------------------------------------------------------------------------------- model


class N:
    """Generator-side node: kind in tag|xtag|void|text|comment|decl|pi|char|entity|raw."""

    __slots__ = ("kind", "name", "attrs", "kids", "data")

    def __init__(self, kind, name="", attrs=None, kids=None, data=""):
        self.kind, self.name, self.attrs, self.kids, self.data = kind, name, attrs or [], kids or [], data

    def ser(self):
        a = "".join(f" {k}" if v is None else f' {k}="{v}"' for k, v in self.attrs)  # None: a valueless (boolean) attribute
        k = self.kind
        if k == "tag":
            return f"<{self.name}{a}>" + "".join(c.ser() for c in self.kids) + f"</{self.name}>"
        if k == "xtag":
            return f"<{self.name}{a}/>"
        if k == "void":
            return f"<{self.name}{a}>"
        if k == "text":
            return self.data
        if k == "comment":
            return f"<!--{self.data}-->"
        if k == "decl":
            return f"<!{self.data}>"
        if k == "pi":
            return f"<?{self.data}>"
        if k == "char":
            return f"&#{self.data};"
        if k == "entity":
            return f"&{self.data};"
        raise AssertionError(k)

    def pre(self):
        yield self
        for c in self.kids:
            yield from c.pre()


ATTR_VALUES = ["", "a", "a b", "x:y;", "1", "é", "a'b", "<", ">", "a=b", "note", "big\tnote", "note\nx", " lead", "admonition tip", "#frag?q=1"]
ATTR_NAMES = ["class", "id", "href", "data-x", "title", "style", "alt", "src"]
TEXTS = ["t", "hello world", " ", "\n", "a  b", "é", "x=y", "'q'", '"dq"', "a > b", "]]>", "\t", "line1\nline2"]


def gen_attrs(R, entity_class=False):
    n = R.choice([0, 0, 1, 2, 3])
    names = R.sample(ATTR_NAMES, n)
    vals = ATTR_VALUES + (["?a&amp;b", "&lt;x", "&#65;"] if entity_class else [])
    out = [(k, R.choice(vals)) for k in names]
    if R.random() < 0.15:
        out.insert(R.randint(0, len(out)), (R.choice(["disabled", "hidden", "checked", "data-flag"]), None))
    return out


def gen_node(R, d, entity_class=False):
    r = R.random()
    if d <= 0 or r < 0.28:
        return N("text", data=R.choice(TEXTS))
    if r < 0.36:
        return N("comment", data=R.choice(["c", " c ", "", "a-b", "x > y", "<b>", "multi\nline"]))
    if r < 0.40:
        return N("entity", data=R.choice(["amp", "lt", "nbsp", "copy", "unknownent"]))
    if r < 0.44:
        return N("char", data=R.choice(["38", "x26", "0", "X41", "1114112"]).replace("X", "x"))
    if r < 0.50:
        return N("void", R.choice(VOID), gen_attrs(R, entity_class))
    if r < 0.56:
        return N("xtag", R.choice(VOID + TAGS), gen_attrs(R, entity_class))
    if r < 0.58:
        if R.random() < 0.5:
            return N("pi", data=R.choice(["pi x?", "xml version='1.0'?", "php echo 1 ?"]))
        return N("decl", data=R.choice(["DOCTYPE html", "doctype html", "DOCTYPE svg PUBLIC 'a' 'b'"]))
    if r < 0.61:
        # raw-text elements: content is not parsed
        return N("tag", R.choice(["script", "style"]), gen_attrs(R), [N("text", data=R.choice(["", "var a = 1 < 2 && b;", "p > a { x: y }", "&amp; stays"]))] if R.random() < 0.8 else [])
    t = R.choice(TAGS)
    return N("tag", t, gen_attrs(R, entity_class), [gen_node(R, d - 1, entity_class) for _ in range(R.randint(0, 3))])


def normalise(forest):
    """Drop empty text nodes (they leave no trace); merge is not needed for the string round trip."""
    out = []
    for n in forest:
        if n.kind == "text" and n.data == "":
            continue
        n.kids = normalise(n.kids)
        out.append(n)
    return out


# ------------------------------------------------------------------------------------------- invariants


def tree_invariants(ctx, root, parser, case, n_chars):
    from myst_parser.parsers.parse_html import Element

    seen = set()
    n = 0
    for el in root.walk():
        n += 1
        if id(el) in seen:
            ctx.violation("tree:element-walked-twice", "walk() yields an element more than once", case)
            return False
        seen.add(id(el))
        if n > 4 * n_chars + 16:
            ctx.violation("tree:more-elements-than-input", "walk() yields more elements than the input can contain", case)
            return False
    stack = [root]
    while stack:
        el = stack.pop()
        for c in el:
            if c.parent is not el:
                ctx.violation("tree:parent-link", "child.parent is not the containing element", case, {"child": repr(c), "container": repr(el)})
                return False
            if not isinstance(c, Element):
                ctx.violation("tree:non-element-child", "child is not an Element", case)
                return False
            stack.append(c)
    if root.parent is not None:
        ctx.violation("tree:root-has-parent", "root has a parent", case)
    if parser is not None:
        st = parser.struct.stack
        if not st or st[0] is not root:
            ctx.violation("tree:stack-bottom-not-root", "open-element stack lost the root", case, {"stack": [repr(x) for x in st]})
            return False
        for a, b in zip(st, list(st)[1:]):
            if b.parent is not a and b not in list(a.walk()):
                ctx.violation("tree:stack-not-a-path", "open-element stack is not an ancestor path", case)
                return False
    return True


def parse_monitored(ctx, s, case):
    """tokenize through a fresh HtmlToAst (as tokenize_html does) under the step budget."""
    from myst_parser.parsers import parse_html as P

    STEPS.steps = 0
    STEPS.budget = 2000 * (len(s) + 20)
    try:
        root = P.tokenize_html(s)
        # second parse with an explicit parser object to look at the stack
        parser = P.HtmlToAst()
        root2 = parser.feed(s)
    except core.StepBudgetExceeded:
        ctx.violation("termination:step-budget", f"parse exceeded {2000*(len(s)+20)} loop iterations on {len(s)} chars", case)
        return None, None
    except RecursionError as e:
        ctx.violation("total:RecursionError", "tokenize_html raised RecursionError", case)
        return None, None
    except Exception as e:  # noqa: BLE001
        sig = core.exc_signature(e)
        ctx.violation(f"total:raises-{sig['type']}:{sig['myst'] or sig['inner']}", f"tokenize_html raised {sig['type']}: {sig['msg']}", case, sig)
        return None, None
    finally:
        STEPS.budget = 10**12
    try:
        if str(root) != str(root2):
            ctx.violation("determinism:two-parses-differ", "the same text parsed twice renders differently", case, {"a": str(root), "b": str(root2)})
    except RecursionError:
        pass
    return root2, parser


def eval_soup(ctx, case):
    s = case["text"]
    root, parser = parse_monitored(ctx, s, case)
    if root is None:
        return
    if not tree_invariants(ctx, root, parser, case, len(s)):
        return
    try:
        out = str(root)
        root.strip(recurse=True)
        root.deepcopy()
        list(root.find("div"))
    except RecursionError:
        ctx.count("soup_render_recursion_limit")
        return
    except Exception as e:  # noqa: BLE001
        sig = core.exc_signature(e)
        ctx.violation(f"total:render-raises-{sig['type']}", f"render/strip/copy/find raised on a parsed tree: {sig['msg']}", case, sig)
        return
    if str(root) != out:
        ctx.violation("noninterference:soup", "strip()/deepcopy()/find() changed the rendering of the original", case)
    ctx.count("soup_ok")
    # the other public spellings of the same operations: character references converted while parsing, every strip() mode
    from myst_parser.parsers import parse_html as P

    try:
        rc = P.tokenize_html(s, convert_charrefs=True)
        n1 = [e for e in rc.walk()]
        n2 = [e for e in rc.walk(include_self=True)]
        bad = next((c for e in n2 for c in e if c.parent is not e), None)
        if bad is not None or len(n2) != len(n1) + 1 or n2[0] is not rc or len({id(e) for e in n2}) != len(n2):
            ctx.violation("tree:convert_charrefs:inconsistent", "tokenize_html(convert_charrefs=True) yields a tree whose walk()/parent links are inconsistent", case)
        str(rc)
        for inplace in (False, True):
            for recurse in (False, True):
                t = P.tokenize_html(s)
                ref = str(t)
                st = t.strip(inplace=inplace, recurse=recurse)
                if inplace and st is not t:
                    ctx.violation("strip:inplace-returns-other-object", "strip(inplace=True) did not return the element itself", case)
                if not inplace and (st is t or str(t) != ref):
                    ctx.violation("strip:copy-mode-alters-original", f"strip(inplace=False, recurse={recurse}) changed or returned the original", case, {"before": ref, "after": str(t)})
                for e in st.walk(include_self=True):
                    if recurse or e is st:
                        kids = list(e)
                        if kids and ((isinstance(kids[0], P.Data) and not kids[0].data.strip() and len(kids[0].data) and False)):
                            pass
                    for c in e:
                        if c.parent is not e:
                            ctx.violation("strip:parent-link", f"strip(inplace={inplace}, recurse={recurse}) leaves a child whose parent is not its container", case)
                            break
                # stripping removes only whitespace-only Data: everything else renders as before, in order
                if "".join(str(st).split()) != "".join(ref.split()) and not any(isinstance(e, (P.Comment, P.Pi, P.Declaration)) for e in t.walk()):
                    if "<pre" not in s.lower() and "<textarea" not in s.lower() and "<script" not in s.lower() and "<style" not in s.lower():
                        ctx.violation("strip:removed-more-than-whitespace", f"strip(inplace={inplace}, recurse={recurse}) changed non-whitespace content", case, {"before": ref, "after": str(st)})
        ctx.count("api_modes_checked")
    except RecursionError:
        ctx.count("soup_render_recursion_limit")
    except Exception as e:  # noqa: BLE001
        sig = core.exc_signature(e)
        ctx.violation(f"total:api-mode-raises-{sig['type']}", f"convert_charrefs=True / strip modes raised on {len(s)} characters: {sig['msg']}", case, sig)


def eval_wf(ctx, case, forest=None):
    """Well-formed case: exact round trip + find oracle + strip/copy non-interference."""
    from myst_parser.parsers import parse_html as P

    s = case["text"]
    root, parser = parse_monitored(ctx, s, case)
    if root is None:
        return
    if not tree_invariants(ctx, root, parser, case, len(s)):
        return
    out = str(root)
    if out != s:
        key = "roundtrip:differs"
        if case.get("entity_class"):
            import html

            # structural classifier: the only difference is references inside attribute values being unescaped
            if str(P.tokenize_html(out)) == out and html.unescape(s) == html.unescape(out) and "&" in s:
                key = "roundtrip:attr-entity-unescaped"
        ctx.violation(key, "str(tokenize_html(s)) != s for well-formed s", case, {"out": out})
        return
    ctx.count("roundtrip_ok")
    # strip / deepcopy
    before = [(id(e), id(e.parent)) for e in root.walk()]
    cp = root.deepcopy()
    st = root.strip(recurse=True)
    st2 = root.strip()
    after = [(id(e), id(e.parent)) for e in root.walk()]
    if str(root) != s or before != after:
        ctx.violation("noninterference:strip-or-copy-alters-original", "strip()/deepcopy() changed the original tree", case, {"now": str(root)})
    if str(cp) != s:
        ctx.violation("copy:deepcopy-renders-differently", "deepcopy() does not render like the original", case, {"copy": str(cp)})
    ids = {id(e) for e in root.walk()} | {id(root)}
    for other in (cp, st, st2):
        if any(id(e) in ids for e in other.walk()) or id(other) in ids:
            ctx.violation("copy:shares-nodes", "copy/stripped tree shares element objects with the original", case)
            break
        for e in other.walk(include_self=True):
            for c in e:
                if c.parent is not e:
                    ctx.violation("copy:parent-link", "parent link broken in a copy", case)
                    break
    if any(isinstance(e, P.Data) and e.data.strip() == "" for e in st.walk()):
        ctx.violation("strip:whitespace-data-left", "strip(recurse=True) left a whitespace-only Data element", case)
    if forest is None:
        return
    # find oracle against the generator's own pre-order model
    model = [n for top in forest for n in top.pre() if n.kind in ("tag", "xtag", "void")]
    real = [e for e in root.walk() if not isinstance(e, P.TerminalElement)]
    if [(n.name, dict(n.attrs)) for n in model] != [(e.name, dict(e.attrs)) for e in real]:
        ctx.violation("walk:order-or-content", "walk() does not enumerate the elements in document order with their attributes", case, {"model": [(n.name, n.attrs) for n in model], "real": [repr(e) for e in real]})
        return
    pos = {id(e): i for i, e in enumerate(real)}
    kinds = {"tag": P.Tag, "xtag": P.XTag, "void": P.VoidTag}
    queries = []
    for name in sorted({n.name for n in model})[:4] + ["nosuch"]:
        queries.append(("name", name, [i for i, n in enumerate(model) if n.name == name]))
    allc = sorted({c for n in model for k, v in n.attrs if k == "class" for c in (v or "").split()})
    for c in allc[:4] + ["nosuch"]:
        queries.append(("class", c, [i for i, n in enumerate(model) if c in (dict(n.attrs).get("class") or "").split()]))
    if len(allc) >= 2:
        pair = allc[:2]
        queries.append(("classes", pair, [i for i, n in enumerate(model) if set(pair) <= set((dict(n.attrs).get("class") or "").split())]))
    pairs = sorted({(k, v) for n in model for k, v in n.attrs}, key=repr)
    for k, v in [pv for pv in pairs if pv[1] is None][:2] + [pv for pv in pairs if pv[1] is not None][:4]:  # a valueless attribute has the value None
        queries.append(("attr", [k, v], [i for i, n in enumerate(model) if dict(n.attrs).get(k, "") == v]))
    for kn, cls in kinds.items():
        queries.append(("type", kn, [i for i, n in enumerate(model) if n.kind == kn]))
    for kind, q, exp in queries:
        if kind == "name":
            got = root.find(q)
        elif kind == "class":
            got = root.find(P.Element, classes=[q])
        elif kind == "classes":
            got = root.find(P.Element, classes=q)
        elif kind == "attr":
            got = root.find(P.Element, attrs={q[0]: q[1]})
        else:
            got = root.find(kinds[q])
        got = [pos.get(id(e), -1) for e in got if not isinstance(e, P.TerminalElement)]
        ctx.count("find_queries")
        if got != exp:
            ctx.violation(f"find:{kind}", f"find by {kind} {q!r} returned elements {got}, independent filter gives {exp}", case, {"query": [kind, q]})
            break
    # find() called on inner elements with every combination of its scope options (candidates from parent links, not from walk())
    def ancestors(x):
        out = []
        while x.parent is not None:
            x = x.parent
            out.append(x)
        return out

    import random as _r

    rr = _r.Random(len(s))
    for e in rr.sample(real, min(3, len(real))) + [root]:
        desc = [x for x in real if any(a is e for a in ancestors(x))]
        kids = [x for x in desc if x.parent is e]
        for include_self in (False, True):
            for recurse in (False, True):
                cand = ([e] if include_self and e is not root else []) + (desc if recurse else kids)
                for kind, q, _ in queries[:6]:
                    if kind == "name":
                        exp2 = [x for x in cand if x.name == q]
                        got2 = e.find(q, include_self=include_self, recurse=recurse)
                    elif kind == "class":
                        exp2 = [x for x in cand if q in (x.attrs.get("class") or "").split()]
                        got2 = e.find(P.Element, classes=[q], include_self=include_self, recurse=recurse)
                    else:
                        continue
                    got2 = [x for x in got2 if not isinstance(x, (P.TerminalElement, P.Root))]
                    ctx.count("find_scope_queries")
                    if [id(x) for x in got2] != [id(x) for x in exp2]:
                        ctx.violation(f"find:scope:include_self={include_self}:recurse={recurse}", f"{type(e).__name__}<{e.name}>.find({q!r}, include_self={include_self}, recurse={recurse}) returned {[pos.get(id(x), -1) for x in got2]}, "
                                      f"the elements in that scope that match are {[pos.get(id(x), -1) for x in exp2]}", case, {"query": [kind, q]})
                        return


def eval_case(ctx, case):
    if case["kind"] == "soup":
        eval_soup(ctx, case)
    elif case["kind"] == "sequence":
        # state carried from one parse into the next: run the prefix cases, then the well-formed one
        for s in case["before"]:
            eval_soup(ctx, {"kind": "soup", "text": s})
        eval_wf(ctx, {"kind": "wf", "text": case["text"], "before": case["before"]})
    else:
        eval_wf(ctx, case)


# ------------------------------------------------------------------------------------------- workloads

SOUP = ["<div>", "</div>", "<p>", "</p>", "<br>", "<br/>", "<img src=\"a\">", "<img src>", "<a href='x'>", "</a>", "<!--", "-->", "<!-- c -->", "<!DOCTYPE html>", "<?pi?>", "<?", "&amp;", "&am", "&#38;", "&#x;", "&#", "&", "<", ">", "</", "<b", "text", " ", "\n", "<script>", "</script>", "<style>", "</style>", "<![CDATA[", "]]>", "<div class=\"admonition\">", "<p class=\"title\">", "</br>", "</img>", "<DIV>", "</DIV>", "<x-y>", "</x-y>", "<div a=\"1\" a=\"2\">", "<div a=b>", "<div a = \"b\" >", "<input disabled>", "\"", "'", "=", "/", "<!>", "<!-->", "<!--->", "<a\x00b>", "\x00", "<textarea>", "</textarea>", "<title>", "é", " ", "<svg:rect/>", "<1>", "</ div>", "<div\n>", "</div\n>"]
ENDS_INSIDE = ["text <b", "<div class=\"a", "<!-- open", "&am", "<script>var a", "<style>p{", "<a href=", "<?pi", "<!DOCTYPE", "</di", "<textarea>x", "<title>t"]


def gen_soup(R):
    r = R.random()
    if r < 0.15:
        d = R.randint(20, 100)
        return "".join(f"<{R.choice(TAGS)}>" for _ in range(d)) + "x" + "".join(f"</{R.choice(TAGS)}>" for _ in range(R.randint(0, d)))
    s = "".join(R.choice(SOUP) for _ in range(R.randint(1, 25)))
    if r < 0.45:
        cs = list(s)
        for _ in range(R.randint(1, 4)):
            if not cs:
                break
            i = R.randrange(len(cs))
            op = R.choice("dxti")
            if op == "d":
                del cs[i]
            elif op == "x":
                cs.insert(i, cs[i])
            elif op == "t" and i + 1 < len(cs):
                cs[i], cs[i + 1] = cs[i + 1], cs[i]
            else:
                cs.insert(i, R.choice("<>&\"'=/!-?# \n\x00;"))
        s = "".join(cs)
    if r > 0.85:
        s += R.choice(ENDS_INSIDE)
    return s


LEAVES = [("text", "", "t"), ("comment", "", "c"), ("entity", "", "amp"), ("char", "", "38"), ("void", "br", ""), ("xtag", "img", ""), ("text", "", " ")]
CONTS = [("div", []), ("p", [("class", "a b")]), ("span", [("id", "x")])]


def forests(n):
    """All ordered forests with exactly n nodes over LEAVES/CONTS (adjacent text nodes excluded)."""
    if n == 0:
        yield []
        return
    for first_size in range(1, n + 1):
        for first in trees(first_size):
            for rest in forests(n - first_size):
                if rest and first.kind == "text" and rest[0].kind == "text":
                    continue
                yield [first] + rest


def trees(n):
    if n == 1:
        for k, name, data in LEAVES:
            yield N(k, name, data=data)
    for name, attrs in CONTS:
        for kids in forests(n - 1):
            yield N("tag", name, list(attrs), kids)


def run_shard(ctx):
    R = ctx.rng
    quick = ctx.tier == "quick"
    # 1. exhaustive small forests
    nmax = 4 if quick else 5
    i = n = 0
    complete = True
    for size in range(1, nmax + 1):
        for f in forests(size):
            i += 1
            if i % ctx.nshards != ctx.shard:
                continue
            s = "".join(t.ser() for t in f)
            eval_wf(ctx, {"kind": "wf", "text": s}, f)
            n += 1
            if (n & 0x3FF) == 0 and ctx.out_of_time():
                complete = False
                break
    ctx.case(n=n)
    ctx.enumerated(n)
    ctx.subrun("exhaustive_forests", exhaustive=complete, max_nodes=nmax, leaves=len(LEAVES), containers=len(CONTS), forests=n)
    # 2. interleaved: soup (possibly ending inside a construct) then large well-formed documents
    n_r = 2500 if quick else 80000
    for j in range(n_r):
        soup = gen_soup(R)
        c1 = {"kind": "soup", "text": soup}
        eval_soup(ctx, c1)
        ctx.case(("soup", soup), len(soup) > 3)
        entity_class = R.random() < 0.15
        forest = normalise([gen_node(R, R.choice([2, 3, 4, 8]), entity_class) for _ in range(R.randint(1, 3))])
        # adjacent text nodes merge into one Data element: harmless for the string, avoid for the model
        s = "".join(t.ser() for t in forest)
        case = {"kind": "wf" if entity_class else "sequence", "text": s, "before": [soup], "entity_class": entity_class}
        eval_wf(ctx, case, forest)
        ctx.case(("wf", s), len(forest) + sum(len(t.kids) for t in forest) >= 2)
        ctx.count("wf_entity_class" if entity_class else "wf_main_class")
        if j < 2:
            ctx.sample({"soup": soup, "well_formed": s})
        if (j & 0x7F) == 0 and ctx.out_of_time():
            break
    # 3. long / deep inputs: linear step budget
    for s in ["<div>" * 90 + "x" + "</div>" * 90, "<p>a</p>" * 3000, "&amp;" * 5000, "<" * 20000, "<!--" + "-" * 20000, "<a " + "x=\"1\" " * 2000 + ">", "x" * 100000]:
        eval_soup(ctx, {"kind": "soup", "text": s})
        ctx.case(("long", s[:16], len(s)))
    ctx.count("jump_events", STEPS.events)
    ctx.notes["code_objects_monitored"] = STEPS.code_objects
    ctx.notes["step_budget"] = "2000*(n+20) loop iterations in parse_html.py per parse"


def finalize(m, tier):
    c = m["counters"]
    for k, lo in (("roundtrip_ok", 1000), ("soup_ok", 500), ("find_queries", 1000), ("jump_events", 1)):
        if c.get(k, 0) < lo:
            m["inconclusive"].append(f"monitor observed only {c.get(k, 0)} '{k}' events (< {lo})")
