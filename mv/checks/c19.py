"""C19 - inventory filtering implements exactly the documented wildcard semantics.

Monitors: reference matcher (independent DP) vs match_with_wildcard; brute-force filter vs
filter_inventories / filter_sphinx_inventories (order included); inv: links in documents (refuri, exactly-one
warnings); myst-inv CLI; lru_cache stress (>256 patterns, early ones re-checked).
"""

from __future__ import annotations

import contextlib
import io
import itertools
import json
import os
import posixpath
import tempfile
import zlib

from .. import core, drive

PROP = "C19"
RULE = (
    "(pattern, name) pairs: exhaustive over alphabet 'a*\\.[b' up to the tier's bound (distinct by construction; "
    "non-trivial = pattern contains '*' or '\\'), plus random longer pairs; generated inventories x filter "
    "quadruples (distinct by hash of inventory+filters; non-trivial = >=1 wildcard filter and >=2 entries); "
    "the same filter cases on inventories written to v2 files and read back by MyST's and Sphinx' reader; every pattern up to length 4 through both filter functions in each of the four coordinates (exhaustive); "
    "documents with inv: links (distinct by text)"
)
ASSUME = [
    "names contain no line breaks (inventory names are line-delimited), so '.*' without DOTALL equals 'any run'",
    "the documented semantics: '*' any run, '\\*' literal star, every other character (a lone backslash included) itself",
]
SHARDS = {"quick": 16, "thorough": 16}
BUDGET_S = {"quick": 40, "thorough": 900}

ALPHA = "a*\\.[b"


def ref_match(name: str, pat: str | None) -> bool:
    """Independent reference: tokenise the pattern, then DP over positions (full match)."""
    if pat is None:
        return True
    toks = []
    i = 0
    while i < len(pat):
        if pat[i] == "\\" and i + 1 < len(pat) and pat[i + 1] == "*":
            toks.append("L*")
            i += 2
        elif pat[i] == "*":
            toks.append("S")
            i += 1
        else:
            toks.append("L" + pat[i])
            i += 1
    n = len(name)
    cur = {0}
    for t in toks:
        if t == "S":
            cur = set(range(min(cur), n + 1)) if cur else set()
        else:
            ch = t[1:]
            cur = {p + 1 for p in cur if p < n and name[p] == ch}
        if not cur:
            return False
    return n in cur


def pair_key(pat, name, got, exp):
    if isinstance(got, str):
        return f"match-raises:{got}"
    # structural classifier: behaves exactly like the pattern without its final backslash
    if pat.endswith("\\") and ref_match(name, pat[:-1]) == got:
        return "match:trailing-backslash-dropped"
    return "match:" + ("accepts-nonmatch" if got else "rejects-match")


def eval_pair(ctx, pat, name):
    from myst_parser.inventory import match_with_wildcard

    exp = ref_match(name, pat)
    try:
        got = match_with_wildcard(name, pat)
    except Exception as e:  # noqa: BLE001
        got = type(e).__name__
    if got != exp:
        ctx.violation(
            pair_key(pat, name, got, exp),
            f"match_with_wildcard({name!r}, {pat!r}) = {got!r}, documented semantics give {exp!r}",
            {"kind": "pair", "pat": pat, "name": name},
            {"got": got, "expected": exp},
        )
    return got


# ---------------------------------------------------------------------------------- inventories


def gen_inventories(rng):
    """Native-format inventories with adversarial names."""
    names = ["a", "b", "a.b", "a*", "*", "a\\", "mod.func", "x[0]", "A", "ab", "a b", "é", "a.b.c", "\\*"]
    doms = ["py", "std", "c", "p*"]
    types = ["function", "label", "module", "t.x", "*", "rst:label", "t:x", "a:b:c"]  # Sphinx keys are 'domain:type', split at the first colon only
    invs = {}
    for key in rng.sample(["k", "key", "k2", "*k", "proj"], rng.randint(1, 3)):
        objects = {}
        for _ in range(rng.randint(1, 8)):
            d, t, n = rng.choice(doms), rng.choice(types), rng.choice(names)
            objects.setdefault(d, {}).setdefault(t, {})[n] = {
                "loc": f"{d}/{t}.html#{n}",
                "text": rng.choice([None, None, "Title " + n]),
            }
        invs[key] = {
            "name": "Proj " + key,
            "version": rng.choice(["1.0", ""]),
            "base_url": rng.choice([None, "https://ex.org/" + key]),
            "objects": objects,
        }
    return invs


def gen_filter(rng, pool):
    r = rng.random()
    if r < 0.25:
        return None
    if r < 0.4:
        return "*"
    base = rng.choice(pool)
    r = rng.random()
    if r < 0.3:
        return base
    if r < 0.5:
        return base[: rng.randint(0, len(base))] + "*"
    if r < 0.65:
        return "*" + base[rng.randint(0, len(base)) :]
    if r < 0.8:
        return base.replace("*", "\\*")
    k = rng.randint(0, len(base))
    return base[:k] + rng.choice(["*", "\\", "\\*", ".", "?"]) + base[k:]


def brute(invs, f_inv, f_dom, f_type, f_name):
    out = []
    for ik, inv in invs.items():
        if not ref_match(ik, f_inv):
            continue
        for d, dd in inv["objects"].items():
            if not ref_match(d, f_dom):
                continue
            for t, td in dd.items():
                if not ref_match(t, f_type):
                    continue
                for n, item in td.items():
                    if ref_match(n, f_name):
                        out.append((ik, d, t, n, item["loc"], item["text"]))
    return out


def eval_filter(ctx, case):
    from myst_parser import inventory as mi

    invs, flt = case["invs"], case["filters"]
    kw = dict(invs=flt[0], domains=flt[1], otypes=flt[2], targets=flt[3])
    exp = brute(invs, *flt)
    try:
        got = [(m.inv, m.domain, m.otype, m.name, m.loc, m.text) for m in mi.filter_inventories(invs, **kw)]
    except Exception as e:  # noqa: BLE001
        ctx.violation("filter-raises:" + type(e).__name__, f"filter_inventories raised {e!r}", case)
        return
    if got != exp:
        cls = "order" if sorted(got, key=repr) == sorted(exp, key=repr) else "set"
        trailing = any(f and f.endswith("\\") for f in flt)
        key = f"filter:{cls}" + (":trailing-backslash-dropped" if trailing and cls == "set" else "")
        ctx.violation(key, "filter_inventories differs from brute-force filter with the reference matcher", case, {"got": got, "expected": exp})
    # same data in Sphinx's in-memory representation. Sphinx's format groups by "domain:type",
    # so compare as ordered sequences after mapping through to_sphinx's own iteration order.
    sph = {k: mi.to_sphinx(v) for k, v in invs.items()}
    exp_s = []
    for ik, inv in sph.items():
        if not ref_match(ik, flt[0]):
            continue
        for dt, data in inv.items():
            d, t = dt.split(":", 1)
            if not (ref_match(d, flt[1]) and ref_match(t, flt[2])):
                continue
            for n, (proj, ver, loc, text) in data.items():
                if ref_match(n, flt[3]):
                    exp_s.append((ik, d, t, n, loc, None if text == "-" else text))
    try:
        got_s = [(m.inv, m.domain, m.otype, m.name, m.loc, m.text) for m in mi.filter_sphinx_inventories(sph, **kw)]
    except Exception as e:  # noqa: BLE001
        ctx.violation("filter-sphinx-raises:" + type(e).__name__, f"filter_sphinx_inventories raised {e!r}", case)
        return
    if got_s != exp_s:
        trailing = any(f and f.endswith("\\") for f in flt)
        ctx.violation("filter-sphinx" + (":trailing-backslash-dropped" if trailing else ""), "filter_sphinx_inventories differs from brute force", case, {"got": got_s, "expected": exp_s})
    # native and Sphinx representation must select the same entries
    if sorted(x[:4] for x in got) != sorted(x[:4] for x in got_s):
        ctx.violation("filter:native-vs-sphinx", "native and Sphinx representation select different entries", case, {"native": got, "sphinx": got_s})


def eval_filter_file(ctx, case):
    """The same inventories written as v2 files and read back by MyST's own reader: the filters select what the model selects (a type is
    everything after the FIRST colon of the file's 'domain:type' field), and the same as Sphinx' representation of Sphinx' own load of the file."""
    import io

    from sphinx.util.inventory import InventoryFile

    from myst_parser import inventory as mi

    invs, flt = case["invs"], case["filters"]
    kw = dict(invs=flt[0], domains=flt[1], otypes=flt[2], targets=flt[3])
    loaded, sph = {}, {}
    for key, inv in invs.items():
        rows = []
        for d, dd in inv["objects"].items():
            for t, td in dd.items():
                if any(ch.isspace() for ch in d + t):
                    return
                for n, item in td.items():
                    rows.append((n, f"{d}:{t}", 1, item["loc"].replace(" ", "%20"), item["text"] or "-"))
        data = ser_v2(inv["name"], inv["version"] or "0", rows)
        try:
            loaded[key] = mi.load(io.BytesIO(data))
            sph[key] = InventoryFile.load(io.BytesIO(data), "", lambda a, b: b)
        except Exception as e:  # noqa: BLE001
            ctx.violation("filter-file:load-raises:" + type(e).__name__, f"loading the generated inventory file raised {e!r}", case)
            return
    model = {k: {**inv, "objects": {d: {t: {n: {"loc": it["loc"].replace(" ", "%20"), "text": it["text"]} for n, it in td.items()} for t, td in dd.items()} for d, dd in inv["objects"].items()}} for k, inv in invs.items()}
    exp = brute(model, *flt)
    got = [(m.inv, m.domain, m.otype, m.name, m.loc, m.text) for m in mi.filter_inventories(loaded, **kw)]
    ctx.count("filter_on_loaded_files")
    if got != exp:
        cls = "order" if sorted(got, key=repr) == sorted(exp, key=repr) else "set"
        ctx.violation(f"filter-file:{cls}", "filter_inventories on the inventories read from v2 files differs from the brute-force filter over the entries written", case, {"got": got[:10], "expected": exp[:10]})
        return
    sph = {k: {dt: {n: tuple(v) for n, v in data.items()} for dt, data in v.items()} for k, v in sph.items()}
    got_s = [(m.inv, m.domain, m.otype, m.name) for m in mi.filter_sphinx_inventories(sph, **kw)]
    if sorted(got_s) != sorted(x[:4] for x in got):
        ctx.violation("filter-file:native-vs-sphinx", "MyST's reader and Sphinx' reader of the same file give different selections", case, {"native": got[:10], "sphinx": got_s[:10]})


# ---------------------------------------------------------------------------------- documents


def ser_v2(project, version, rows):
    body = "".join(f"{n} {dt} {prio} {loc} {disp}\n" for n, dt, prio, loc, disp in rows)
    head = (
        f"# Sphinx inventory version 2\n# Project: {project}\n# Version: {version}\n"
        "# The remainder of this file is compressed using zlib.\n"
    )
    return head.encode() + zlib.compress(body.encode())


DOC_ROWS = [
    ("mod.func", "py:function", 1, "api.html#$", "-"),
    ("mod.Class", "py:class", 1, "api.html#$", "-"),
    ("mod.Class.meth", "py:method", 1, "api.html#$", "-"),
    ("star*name", "py:function", 1, "s.html#star", "-"),
    # locations that a URL *resolver* would not simply append to the base (a first segment that looks like a scheme, dot segments, an absolute path, a query)
    ("cpp.vector", "cpp:class", 1, "cpp:containers.html#vector", "-"),
    ("wiki.search", "std:label", -1, "Special:Search", "Search"),
    ("up.one", "py:function", 1, "../other/up.html#$", "-"),
    ("abs.path", "py:function", 1, "/rooted/page.html#$", "-"),
    ("q.only", "std:label", -1, "?q=1#frag", "Query"),
    ("my-label", "std:label", -1, "index.html#my-label", "My Label Title"),
    ("other", "std:label", -1, "o.html#other", "Other"),
    ("index", "std:doc", -1, "index.html", "Index Doc"),
    # the same object recorded under several object types / names, all at ONE location: still several matches
    ("pkg.Thing", "py:class", 1, "api.html#$", "-"),
    ("pkg.Thing", "py:exception", 1, "api.html#$", "-"),
    ("pkg.Thing", "std:label", -1, "api.html#pkg.Thing", "Thing"),
    ("alias-one", "std:label", -1, "same.html#spot", "Spot"),
    ("alias-two", "std:label", -1, "same.html#spot", "Spot"),
]


def doc_model(rows_by_key, base_urls, href_target, invs, doms, types, sphinx_order=False):
    """Expected (matches in inventory order)."""
    out = []
    for key, rows in rows_by_key.items():
        if not ref_match(key, invs):
            continue
        # the native structure groups by domain then type in first-appearance order, Sphinx' in-memory one by 'domain:type'
        grouped: dict = {}
        for n, dt, _p, loc, disp in rows:
            d, t = dt.split(":", 1)
            if loc.endswith("$"):
                loc = loc[:-1] + n
            if sphinx_order:
                grouped.setdefault(dt, {}).setdefault(t, {})[n] = (loc, None if disp == "-" else disp)
            else:
                grouped.setdefault(d, {}).setdefault(t, {})[n] = (loc, None if disp == "-" else disp)
        for d, dd in grouped.items():
            d = d.split(":", 1)[0]
            if not ref_match(d, doms):
                continue
            for t, td in dd.items():
                if not ref_match(t, types):
                    continue
                for n, (loc, disp) in td.items():
                    if ref_match(n, href_target):
                        out.append((key, d, t, n, posixpath.join(base_urls[key], loc), disp))
    return out


def judge_link(lk, exp, refs, miss, amb):
    probs = []
    if not exp:
        if refs or len(miss) != 1 or amb:
            probs.append(("doc:no-match-handling", "0 matches must give no reference and exactly one iref_missing"))
        return probs
    if len(refs) != 1:
        return [("doc:reference-count", "an inv: link with matches must render exactly one reference")]
    if refs[0].get("refuri") != exp[0][4]:
        probs.append(("doc:refuri", "refuri is not base_url joined with the first match's location"))
    if len(exp) > 1 and (len(amb) != 1 or miss):
        probs.append(("doc:ambiguous-warning", ">1 matches must warn exactly once (iref_ambiguous)"))
    if len(exp) == 1 and (amb or miss):
        probs.append(("doc:spurious-warning", "a unique match must not warn"))
    want = lk["text"].replace("*", "") if lk["text"] else (exp[0][5] or exp[0][3])
    if refs[0].astext() != want:
        probs.append(("doc:text", f"link text {refs[0].astext()!r} is not explicit text / display name / object name ({want!r})"))
    return probs


def eval_doc(ctx, case):
    from docutils import nodes

    tmp = tempfile.mkdtemp(prefix="c19_")
    try:
        rows_by_key = {k: [tuple(r) for r in v] for k, v in case["invs"].items()}
        base_urls, cfg = {}, {}
        for key, rows in rows_by_key.items():
            p = os.path.join(tmp, f"{key}.inv")
            with open(p, "wb") as f:
                f.write(ser_v2("P" + key, "1", rows))
            base_urls[key] = f"https://ex.org/{key}"
            cfg[key] = [base_urls[key], p]
        for alias, orig in (case.get("same_file") or {}).items():
            # a second inventory key that points at the SAME file under another base URL (one objects.inv published as /stable and /latest)
            if orig in cfg and alias not in cfg:
                rows_by_key[alias] = rows_by_key[orig]
                base_urls[alias] = f"https://mirror.example/{alias}/v2"
                cfg[alias] = [base_urls[alias], cfg[orig][1]]
        lines, expect = [], []
        for i, lk in enumerate(case["links"]):
            path = ":".join(x for x in [lk["inv"] or "", lk["dom"] or "", lk["type"] or ""]).rstrip(":")
            if lk["inv"] is None and lk["dom"] is None and lk["type"] is None:
                path = ""
            href = f"inv:{path}#{lk['target']}"
            # inline-link destinations undergo Markdown backslash-unescaping, autolinks do not
            esc = href.replace("\\", "\\\\")
            if lk["text"]:
                md = f"[{lk['text']}](<{esc}>)"
            else:
                md = f"<{href}>" if lk["auto"] else f"[](<{esc}>)"
            lines += [f"mk{i} {md} end{i}", ""]
            expect.append(doc_model(rows_by_key, base_urls, lk["target"], lk["inv"] or None, lk["dom"] or None, lk["type"] or None, sphinx_order=case.get("front_end") == "sphinx"))
        text = "\n".join(lines)
        shift = 0
        if case.get("front_end") == "sphinx":
            # the same links through the Sphinx front end: inventories come from intersphinx; ref_domains (about '#target' fallbacks only) must not matter
            conf = {"extensions": ["myst_parser", "sphinx.ext.intersphinx"], "intersphinx_mapping": {k: (v[0], v[1]) for k, v in cfg.items()}}
            rd = case.get("ref_domains")
            if rd is not None and case.get("ref_domains_via") == "front":
                head = "---\nmyst:\n  ref_domains: [" + ", ".join(rd) + "]\n---\n\n"
                text, shift = head + text, head.count("\n")
            elif rd is not None:
                conf["myst_ref_domains"] = rd
            b = drive.SphinxBuild({"index.md": text}, conf={k: v for k, v in conf.items() if k != "extensions"}, confpy_extra="extensions = ['myst_parser', 'sphinx.ext.intersphinx']")
            try:
                try:
                    b.build()
                    dt = b.doctree("index")
                    # the order of the inventories themselves is Sphinx' (intersphinx sorts them by name): take it from Sphinx' own data
                    order = [k for k in b.app.env.intersphinx_named_inventory if k in rows_by_key]
                    rows_by_key = {k: rows_by_key[k] for k in order}
                    expect = [doc_model(rows_by_key, base_urls, lk["target"], lk["inv"] or None, lk["dom"] or None, lk["type"] or None, sphinx_order=True) for lk in case["links"]]
                except Exception as e:  # noqa: BLE001
                    ctx.violation("doc-raises:sphinx:" + type(e).__name__, f"inv: link document raised {e!r} in a Sphinx build", case, core.exc_signature(e))
                    return
                recs = [{"line": (r["line"] or 0) - shift, "msg": r["msg"]} for r in b.stream_records()]
                ctx.count("doc_sphinx_builds")
            finally:
                b.close()
        else:
            try:
                dt, w = drive.parse(text, myst_inventories=cfg)
            except Exception as e:  # noqa: BLE001
                ctx.violation("doc-raises:" + type(e).__name__, f"inv: link document raised {e!r}", case, core.exc_signature(e))
                return
            recs = drive.split_warnings(w)
        paras = [p for p in dt.findall(nodes.paragraph) if p.astext().startswith("mk")]
        by_mk = {p.astext().split(" ")[0].split("\n")[0]: p for p in paras}
        for i, (lk, exp) in enumerate(zip(case["links"], expect)):
            p = by_mk.get(f"mk{i}")
            line = 1 + 2 * i
            if p is None:
                ctx.violation("doc:paragraph-lost", "paragraph with inv link missing", case, {"link": lk})
                continue
            refs = [r for r in p.findall(nodes.reference)]
            miss = [r for r in recs if r["line"] == line and "[myst.iref_missing]" in r["msg"]]
            amb = [r for r in recs if r["line"] == line and "[myst.iref_ambiguous]" in r["msg"]]
            d = {"link": lk, "expected": exp, "refs": [r.attributes for r in refs], "warnings": [r["msg"] for r in recs if r["line"] == line]}
            probs = judge_link(lk, exp, refs, miss, amb)
            if probs:
                parts = [lk["inv"], lk["dom"], lk["type"], lk["target"]]
                if any(x and x.endswith("\\") for x in parts):
                    # structural classifier for the trailing-backslash mechanism: the observation is exactly
                    # what the model predicts for the same filters with their final backslash removed
                    st = [x[:-1] if x and x.endswith("\\") else x for x in parts]
                    alt = doc_model(rows_by_key, base_urls, st[3], st[0] or None, st[1] or None, st[2] or None)
                    if not judge_link(lk, alt, refs, miss, amb):
                        probs = [("doc:trailing-backslash-dropped", "inv: link filter ending in a backslash behaves as if the backslash were absent")]
                for key, what in probs:
                    ctx.violation(key, what, case, d)
                continue
            ctx.count("doc_links_missing" if not exp else "doc_links_resolved" if len(exp) == 1 else "doc_links_ambiguous")
    finally:
        import shutil

        shutil.rmtree(tmp, ignore_errors=True)


def gen_doc(rng):
    invs = {}
    for key in rng.sample(["k1", "k2", "lib"], rng.randint(1, 2)):
        invs[key] = [list(r) for r in rng.sample(DOC_ROWS, rng.randint(2, len(DOC_ROWS)))]
    links = []
    targets = ["mod.func", "mod.*", "*", "my-label", "nothing", "star\\*name", "star*", "mod.Class*", "*.meth", "index", "MOD.FUNC", "mod.func\\", "pkg.Thing", "pkg.*", "alias-*", "alias-one"]
    for _ in range(rng.randint(2, 6)):
        r = rng.random()
        links.append(
            {
                "inv": rng.choice([None, None, "k1", "k*", "lib", "nokey"]),
                "dom": rng.choice([None, None, "py", "std", "*", "p*"]) ,
                "type": rng.choice([None, None, "function", "label", "*", "f*"]),
                "target": rng.choice(targets),
                "text": rng.choice(["", "", "T *em*"]),
                "auto": r < 0.5,
            }
        )
    for lk in links:  # path parts are positional: a later part needs the earlier ones
        if lk["type"] is not None and lk["dom"] is None:
            lk["dom"] = "*"
        if lk["dom"] is not None and lk["inv"] is None:
            lk["inv"] = "*"
        if lk["text"]:
            lk["auto"] = False
    case = {"kind": "doc", "invs": invs, "links": links}
    if rng.random() < 0.35:
        orig = rng.choice(sorted(invs))
        alias = rng.choice(["zz-alias", "a-alias", "k9"])
        case["same_file"] = {alias: orig}
        for lk in links:
            if rng.random() < 0.4:
                lk["inv"] = rng.choice([alias, orig, alias[:2] + "*"])
                if lk["inv"] is not None and False:
                    pass
    return case


# ---------------------------------------------------------------------------------- CLI


def eval_cli(ctx, case):
    import yaml

    from myst_parser.inventory import inventory_cli

    rows = [tuple(r) for r in case["rows"]]
    tmp = tempfile.mkdtemp(prefix="c19cli_")
    try:
        p = os.path.join(tmp, "o.inv")
        with open(p, "wb") as f:
            f.write(ser_v2("P", "1", rows))
        args = [p, "-f", "json"]
        for flag, v in (("-d", case["d"]), ("-o", case["o"]), ("-n", case["n"])):
            if v is not None:
                args += [flag, v]
        out = io.StringIO()
        try:
            with contextlib.redirect_stdout(out):
                inventory_cli(args)
        except BaseException as e:  # noqa: BLE001
            ctx.violation("cli-raises:" + type(e).__name__, f"myst-inv raised {e!r}", case)
            return
        got = json.loads(out.getvalue())["objects"]
        grouped: dict = {}
        for n, dt, _p, loc, disp in rows:
            d, t = dt.split(":", 1)
            grouped.setdefault(d, {}).setdefault(t, {})[n] = {"loc": loc[:-1] + n if loc.endswith("$") else loc, "text": None if disp == "-" else disp}
        exp: dict = {}
        for d, dd in grouped.items():
            for t, td in dd.items():
                for n, item in td.items():
                    if ref_match(d, case["d"] or "*") and ref_match(t, case["o"] or "*") and ref_match(n, case["n"] or "*"):
                        exp.setdefault(d, {}).setdefault(t, {})[n] = item
        if got != exp:
            ctx.violation("cli:filter", "myst-inv output differs from the brute-force filter", case, {"got": got, "expected": exp})
        elif list(_flat(got)) != list(_flat(exp)):
            ctx.violation("cli:order", "myst-inv output order differs from inventory order", case, {"got": got, "expected": exp})
    finally:
        import shutil

        shutil.rmtree(tmp, ignore_errors=True)


def _flat(o):
    for d, dd in o.items():
        for t, td in dd.items():
            for n in td:
                yield d, t, n


# ---------------------------------------------------------------------------------- driver


def eval_case(ctx, case):
    k = case["kind"]
    if k == "pair":
        eval_pair(ctx, case["pat"], case["name"])
    elif k == "filter":
        eval_filter(ctx, case)
        eval_filter_file(ctx, case)
    elif k == "large_file":
        eval_large_file(ctx, case)
    elif k == "doc":
        eval_doc(ctx, case)
    elif k == "cli":
        eval_cli(ctx, case)
    elif k == "cache":
        eval_cache(ctx, case)


def eval_cache(ctx, case):
    """>256 distinct patterns in one process, then the early ones again (lru_cache keyed by full pattern)."""
    from myst_parser.inventory import match_with_wildcard

    pats = case["pats"]
    names = case["names"]
    first = [[match_with_wildcard(n, p) for n in names] for p in pats]
    second = [[match_with_wildcard(n, p) for n in names] for p in pats[:64]]
    for p, a, b in zip(pats, first, second):
        if a != b:
            ctx.violation("cache:result-changed", "result for a pattern changed after cache eviction", {"kind": "cache", "pats": pats, "names": names}, {"pattern": p})
            break


def eval_large_file(ctx, case):
    """A large inventory with non-ASCII names and titles, read from a file-like object in blocks of several sizes: the filters see every entry."""
    import io
    import random as _random

    from myst_parser import inventory as mi

    R = _random.Random(case["seed"])
    rows, names = [], []
    for j in range(case["n"]):
        n = f"pkg{R.getrandbits(24):x}.{R.choice(['é', 'ß', '日本', 'Ω', '😀', 'a'])}{j}"
        names.append(n)
        rows.append((n, R.choice(["py:function", "std:label", "c:macro"]), 1, f"p{j}.html#$", R.choice(["-", f"Títle 語 {j}"])))
    data = ser_v2("Bïg", "1", rows)

    class Short(io.RawIOBase):
        def __init__(self, b, k):
            self.b, self.k, self.p = b, k, 0

        def readable(self):
            return True

        def read(self, n=-1):
            n = self.k if n is None or n < 0 else min(n, self.k)
            out = self.b[self.p : self.p + n]
            self.p += len(out)
            return out

    for k in case["reads"]:
        try:
            inv = mi.load(io.BytesIO(data) if k == 0 else Short(data, k))
        except Exception as e:  # noqa: BLE001
            ctx.violation("large-file:load-raises:" + type(e).__name__, f"a {len(data)}-byte inventory with {len(rows)} non-ASCII entries could not be loaded (reads of {k or 'any'} bytes): {e!r}", case)
            return
        ctx.count("large_inventory_files_loaded")
        for pat in case["patterns"]:
            exp = sorted(n for n in names if ref_match(n, pat))
            got = sorted(m.name for m in mi.filter_inventories({"big": inv}, targets=pat))
            if got != exp:
                ctx.violation("large-file:filter-set", f"targets={pat!r} on the loaded large inventory selects {len(got)} entries, the entries written that match are {len(exp)}", case, {"missing": [n for n in exp if n not in got][:5], "extra": [n for n in got if n not in exp][:5]})
                return


def eval_filter_coordinates(ctx, pat, fnames, finvs, fsph):
    """One pattern in each of the four coordinates: the filters select exactly the entries the reference matcher accepts in full."""
    from myst_parser import inventory as mi

    exp = [n for n in fnames if ref_match(n, pat)]
    for coord, kwname, pick in (("name", "targets", lambda m: m.name), ("otype", "otypes", lambda m: m.otype), ("domain", "domains", lambda m: m.domain), ("inv", "invs", lambda m: m.inv)):
        for label, fn, data in (("native", mi.filter_inventories, finvs[coord]), ("sphinx", mi.filter_sphinx_inventories, fsph[coord])):
            if label == "sphinx" and coord in ("otype", "domain") and any(":" in n for n in fnames):
                continue
            try:
                got = [pick(m) for m in fn(data, **{kwname: pat})]
            except Exception as e:  # noqa: BLE001
                ctx.violation(f"filter-coordinate:raises:{type(e).__name__}", f"{fn.__name__}({kwname}={pat!r}) raised {e!r}", {"kind": "coord", "pat": pat, "coord": coord})
                continue
            ctx.count("filter_coordinate_patterns")
            if got != exp:
                extra = [n for n in got if n not in exp][:3]
                lost = [n for n in exp if n not in got][:3]
                ctx.violation(f"filter-coordinate:{coord}:{'accepts-non-match' if extra else 'rejects-match'}", f"{fn.__name__}({kwname}={pat!r}) selects {got[:6]!r}...; the full-match reference selects {exp[:6]!r}... (extra {extra}, lost {lost})", {"kind": "coord", "pat": pat, "coord": coord})


def run_shard(ctx):
    from myst_parser import inventory as mi

    rng = ctx.rng
    case = {"kind": "large_file", "seed": rng.getrandbits(40), "n": 2500 if ctx.tier == "quick" else 9000, "reads": [0, 16384, 4096, 1000, 37][ctx.shard % 5 :][:2] or [0], "patterns": ["*", "pkg1*", "*é*", "*7", "pkg*.日本*"]}
    eval_case(ctx, case)
    ctx.case(("large_file", case["seed"]), True)
    pmax, nmax = (4, 3) if ctx.tier == "quick" else (6, 4)
    # 1. exhaustive pairs, partitioned by pattern index
    names = ["".join(t) for nl in range(nmax + 1) for t in itertools.product(ALPHA, repeat=nl)]
    # the same enumeration through the FILTER functions, one coordinate at a time (they may take their own path to a match)
    fnames = [n for n in names if n and len(n) <= 3 and not any(ch.isspace() for ch in n)]
    finvs = {
        "name": {"k": {"name": "p", "version": "1", "base_url": None, "objects": {"d": {"t": {n: {"loc": "l", "text": None} for n in fnames}}}}},
        "otype": {"k": {"name": "p", "version": "1", "base_url": None, "objects": {"d": {n: {"x": {"loc": "l", "text": None}} for n in fnames}}}},
        "domain": {"k": {"name": "p", "version": "1", "base_url": None, "objects": {n: {"t": {"x": {"loc": "l", "text": None}}} for n in fnames}}},
        "inv": {n: {"name": "p", "version": "1", "base_url": None, "objects": {"d": {"t": {"x": {"loc": "l", "text": None}}}}} for n in fnames},
    }
    fsph = {c: {k: mi.to_sphinx(v) for k, v in d.items()} for c, d in finvs.items()}
    idx = 0
    npairs = nontriv = 0
    done = True
    for pl in range(pmax + 1):
        for pt in itertools.product(ALPHA, repeat=pl):
            idx += 1
            if idx % ctx.nshards != ctx.shard:
                continue
            if pl >= 5 and ctx.out_of_time():
                done = False
                break
            pat = "".join(pt)
            for name in names:
                eval_pair(ctx, pat, name)
            npairs += len(names)
            if pl <= 4:
                eval_filter_coordinates(ctx, pat, fnames, finvs, fsph)
            if "*" in pat or "\\" in pat:
                nontriv += len(names)
    ctx.case(n=npairs)
    ctx.enumerated(nontriv)
    ctx.subrun("exhaustive_pairs", exhaustive=done, pattern_len_max=pmax, name_len_max=nmax, alphabet=ALPHA, pairs=npairs)
    ctx.sample({"kind": "pair", "pat": "a\\*[", "name": "a*["})
    ctx.count("pairs_exhaustive", npairs)
    # 2. random longer pairs (name derived from the pattern so that matches are frequent)
    n_rand = 60000 if ctx.tier == "quick" else 400000
    for _ in range(n_rand):
        pat = "".join(rng.choice(ALPHA + "ab") for _ in range(rng.randint(5, 12)))
        if rng.random() < 0.6:
            name = "".join((rng.choice(["", "a", "ab.", "\\"]) if c == "*" else c) for c in pat.replace("\\*", "\0")).replace("\0", "*")
        else:
            name = "".join(rng.choice(ALPHA) for _ in range(rng.randint(0, 10)))
        got = eval_pair(ctx, pat, name)
        ctx.case(("pair", pat, name))
        ctx.count("random_pairs_matching" if got is True else "random_pairs_nonmatching")
    # 3. lru_cache stress
    pats = sorted({"".join(rng.choice(ALPHA) for _ in range(rng.randint(1, 5))) for _ in range(600)})[:400]
    eval_cache(ctx, {"kind": "cache", "pats": pats, "names": names[:40]})
    ctx.case(("cache", tuple(pats)))
    info = mi._create_regex.cache_info()
    ctx.count("lru_evictions_possible", int(info.misses > info.maxsize))
    # 4. inventories x filter quadruples
    n_f = 5000 if ctx.tier == "quick" else 40000
    for i in range(n_f):
        invs = gen_inventories(rng)
        pool_k = list(invs)
        pool_d = [d for v in invs.values() for d in v["objects"]]
        pool_t = [t for v in invs.values() for dd in v["objects"].values() for t in dd]
        pool_n = [n for v in invs.values() for dd in v["objects"].values() for td in dd.values() for n in td]
        flt = [gen_filter(rng, pool_k), gen_filter(rng, pool_d), gen_filter(rng, pool_t), gen_filter(rng, pool_n)]
        case = {"kind": "filter", "invs": invs, "filters": flt}
        eval_filter(ctx, case)
        eval_filter_file(ctx, case)
        nontrivial = any(f and ("*" in f or "\\" in f) for f in flt) and len(pool_n) >= 2
        ctx.case(("filter", json.dumps(case, sort_keys=True)), nontrivial)
        if i == 0:
            ctx.sample(case)
        if ctx.out_of_time():
            break
    # 5. documents with inv: links, 6. CLI
    n_d = 60 if ctx.tier == "quick" else 600
    for i in range(n_d):
        case = gen_doc(rng)
        if i % 4 == 1:
            case["front_end"] = "sphinx"
            case["ref_domains"] = rng.choice([None, ["std"], ["py"], ["py", "std"], ["c"]])
            case["ref_domains_via"] = rng.choice(["conf", "front"])
        eval_doc(ctx, case)
        ctx.case(("doc", json.dumps(case, sort_keys=True)))
        if i == 0:
            ctx.sample(case)
        c2 = {"kind": "cli", "rows": [list(r) for r in rng.sample(DOC_ROWS, rng.randint(2, len(DOC_ROWS)))],
              "d": rng.choice([None, "py", "s*", "*"]), "o": rng.choice([None, "function", "*l*", "l\\*"]), "n": rng.choice([None, "mod.*", "*", "star\\*name", "*e*"])}
        eval_cli(ctx, c2)
        ctx.case(("cli", json.dumps(c2, sort_keys=True)))
        if ctx.out_of_time():
            break


def finalize(m, tier):
    c = m["counters"]
    need = ["pairs_exhaustive", "random_pairs_matching", "doc_links_resolved", "doc_links_missing", "doc_links_ambiguous", "doc_sphinx_builds"]
    for k in need:
        if c.get(k, 0) == 0:
            m["inconclusive"].append(f"monitor never observed '{k}'")
