"""C01 - parsing is total: any text, any valid config, never an uncaught exception.

Exception-capture monitor + logical step budget (sys.monitoring PY_START over myst_parser code objects) over hostile
workloads: token soup, grammar documents, mutated documents, front-matter soup, hostile HTML/options/link destinations,
under random valid configurations, through publish_doctree (docutils) and in-process Sphinx builds; plus fault
sequences on include / inventory paths (real file-system conditions and scripted failpoints on Path.read_text), where
the injected fault must be reported in a message and the rest of the document must still be rendered.
"""

from __future__ import annotations

import errno
import os
import random
import pathlib
import re
import shutil
import tempfile
import zlib

from .. import core, drive, mon
from ..gen import doc as G

PROP = "C01"
RULE = (
    "documents: token soup over a ~200-entry MyST vocabulary under container prefixes with character mutation from a hostile "
    "alphabet (NUL, CR, NEL, U+2028, BOM, astral, combining), marker-grammar documents and their mutations, front-matter "
    "soup (aliases, tags, merge keys, non-dict roots, every JSON type under 'myst:'), hostile HTML with html_image / "
    "html_admonition, option-block soup, hostile link destinations; x random valid MdParserConfig (extension subsets, "
    "commonmark mode, anchors, url_schemes shapes, ...); docutils front end and Sphinx dummy builds; fault sequences: include "
    "/ literalinclude-style options / inventories over {missing, directory, invalid UTF-8, truncated zlib, bad header, "
    "self-including, mutually including} files and scripted OSError/UnicodeDecodeError sequences; exhaustive matrices: each syntax rule disabled on its own, every config field x 51 YAML values (front matter / valid global), "
    "every docutils directive x option x 22 values (and a sample for Sphinx' directives), an attribute line before each of 40 block kinds, link forms x hostile destinations; distinct by hash of "
    "(text, config, front end); non-trivial = the text has >= 2 lines"
)
ASSUME = [
    "halt_level=5: with docutils' default (4) a SEVERE system message is turned into an exception by docutils design and user choice",
    "configurations that need linkify-it-py (linkify extension, gfm_only) are not generated: the package is not importable here",
    "KeyboardInterrupt / the wall-clock watchdog are inconclusive, never violations; the step budget is logical (function entries)",
]
SHARDS = {"quick": 16, "thorough": 16}
BUDGET_S = {"quick": 60, "thorough": 1200}
ANCHORS = ["main.read_topmatter", "main.merge_file_level", "directives._parse_directive_options", "DocutilsRenderer.run_directive", "html_to_nodes.html_to_nodes", "DocutilsRenderer.render_substitution", "MockIncludeDirective.run",
           "DocutilsRenderer.get_inventory_matches", "SphinxRenderer.render_link_unknown", "DocutilsRenderer.render_front_matter"]

TMP = None
REACH = None
HOSTILE_DEST = ["a" * 300 + ".md", "x%00y.md", "../" * 40 + "etc/passwd", ".", "..", "/", "dir/", "a\\b.md", "%", "%zz", "#", "?q#f", "file:///etc/passwd", "C:\\x.md", "\u202e.md", "a b.md", "<>", "'\"", "con.md#" + "f" * 500,
                "project:", "path:", "inv:", "inv:::", "inv:k:*:*#*", "project:#", "path:/" + "p" * 300, "http://[::1", "mailto:", "//host/x",
                # authorities that urllib only validates when a part is read (port, hostname), for plain and templated schemes
                "wiki://localhost:99999/Page", "wiki://h:p/x", "gh://h:\u00b2/x", "wiki://user:pw@host:port/p?q#f", "wiki://h:-1/", "http://h:99999999999999999999/", "wiki://[v1.x]:1/", "wiki://h:65536", "gh:org/repo#1",
                "wiki://%zz:80/", "https://ex ample.org:8o/"]


def setup(ctx):
    global TMP, REACH
    TMP = tempfile.mkdtemp(prefix="c01_")
    os.makedirs(os.path.join(TMP, "adir"))
    W = lambda n, b: open(os.path.join(TMP, n), "wb").write(b)  # noqa: E731
    W("ok.md", b"included *ok* INCOK\n")
    W("latin1.md", "caf\xe9 INCL1\n".encode("latin-1"))
    W("binary.md", bytes(range(256)))
    W("self.md", b"before\n\n```{include} self.md\n```\n")
    W("mut_a.md", b"```{include} mut_b.md\n```\n")
    W("mut_b.md", b"```{include} mut_a.md\n```\n")
    W("empty.md", b"")
    W("fm.md", b"---\na: *x\n---\nbody\n")
    good = b"# Sphinx inventory version 2\n# Project: P\n# Version: 1\n# The remainder of this file is compressed using zlib.\n" + zlib.compress(b"mod.func py:function 1 api.html#$ -\n")
    W("good.inv", good)
    W("trunc.inv", good[:-7])
    W("badhdr.inv", b"# Not an inventory\n")
    W("v9.inv", b"# Sphinx inventory version 9\n")
    W("garbage.inv", good[:110] + b"\x00\xff" * 20)
    W("emptyfile.inv", b"")
    W("boominc.md", b"included before {mvboom}`x` after\n\n## heading in the included file\n")
    # a third-party style role and directive whose implementation raises (extensions do): the failure must stay local to the construct
    from docutils.parsers.rst import Directive, directives, roles

    def boom_role(name, rawtext, text, lineno, inliner, options=None, content=None):
        raise ValueError("role implementation failed")

    class BoomDirective(Directive):
        has_content = True

        def run(self):
            raise RuntimeError("directive implementation failed")

    class BoomAfterParse(Directive):
        has_content = True

        def run(self):
            from docutils import nodes

            node = nodes.container()
            self.state.nested_parse(self.content, self.content_offset, node, match_titles=True)
            raise KeyError("failed after parsing its body")

    roles.register_local_role("mvboom", boom_role)
    directives.register_directive("mvboomdir", BoomDirective)
    directives.register_directive("mvboomafter", BoomAfterParse)
    REACH = mon.start_reach(ctx, cap=None)


def teardown(ctx):
    if REACH:
        ctx.count("max_steps_in_one_parse", 0)
        ctx.notes["max_steps_seen"] = REACH.max_steps_seen
    mon.finish_reach(ctx, ANCHORS)
    shutil.rmtree(TMP, ignore_errors=True)


def budget(text):
    return 2_000_000 + 50_000 * len(text)


KNOWN_FRAMES = {
    ("AssertionError", "misc.py:visit_transition"): "crash:transition-in-container",
}


def crash_key(sig):
    k = KNOWN_FRAMES.get((sig["type"], sig["inner"]))
    if k:
        return k
    if (sig["type"], sig["inner"]) == ("AssertionError", "nodes.py:replace_self"):
        # docutils refuses to drop ids/classes when a node is replaced by a list: keyed by the transform that does it
        if sig.get("caller") == "references.py:apply":
            return "crash:docutils:attributes-on-pending-node"
        return f"crash:replace_self-loses-attributes:{sig.get('caller')}"
    if (sig["type"] == "KeyError" and sig.get("caller") == "toctree.py:document_toc" and "anchorname" in sig.get("msg", "")) or (sig["type"] == "AttributeError" and sig["inner"] == "html5.py:visit_download_reference" and "dlpath" in sig.get("msg", "")):
        # Sphinx copies a section title into the page's table of contents; a download reference inside the title is a reference node without 'anchorname' there
        return "crash:sphinx-html:download-reference-in-heading"
    if sig["type"] == "RecursionError":
        # the innermost frame of a RecursionError is arbitrary: key by the innermost myst_parser frame
        return f"crash:RecursionError:{sig['myst'] or sig['inner']}"
    if sig["inner"] != sig["myst"]:
        # raised inside a dependency: key by the raising frame, and say through which myst_parser function it was reached
        return f"crash:{sig['type']}:{sig['inner']}:via:{sig['myst']}"
    return f"crash:{sig['type']}:{sig['myst']}"


def run_docutils(ctx, case, text, kw, src=None):
    """-> (doc, warnings) or None after recording the violation."""
    import signal

    def _alarm(signum, frame):
        raise core.WallClockSuspicion()

    REACH.begin_case(budget(text))
    old = signal.signal(signal.SIGALRM, _alarm)
    signal.setitimer(signal.ITIMER_REAL, case.get("alarm_s", 60))
    try:
        try:
            doc, w = drive.parse(text, source_path=src or os.path.join(TMP, "doc.md"), **kw)
        finally:
            signal.setitimer(signal.ITIMER_REAL, 0)
            signal.signal(signal.SIGALRM, old)
    except core.StepBudgetExceeded as e:
        REACH.end_case()
        ctx.violation("termination:step-budget", f"parse exceeded its logical step budget: {e}", case, {"text": text[:2000]})
        return None
    except core.WallClockSuspicion:
        # the myst_parser step budget did not trip, so the time is being spent inside a dependency: decide in logical steps over all code
        REACH.end_case()
        glob_budget = 4_000_000 + 400_000 * len(text)
        outcome, n = mon.run_with_global_step_budget(lambda: drive.parse(text, source_path=src or os.path.join(TMP, "doc.md"), **kw), glob_budget)
        if outcome == "exceeded":
            ds = list(kw.get("myst_disable_syntax") or [])
            key = "termination:markdown-it-loops-without-its-paragraph-rule" if "paragraph" in ds else "termination:step-budget:all-code"
            ctx.violation(key, f"no result after {n} function entries of all code for a text of {len(text)} characters (the myst_parser-only budget did not trip: the time is spent inside a dependency)", case,
                          {"text": text[:2000], "config": {k: repr(v)[:200] for k, v in kw.items()}})
        else:
            ctx.count("slow_case_finished_within_global_budget:" + outcome.split(":")[0])
        return None
    except KeyboardInterrupt:
        raise
    except BaseException as e:  # noqa: BLE001
        REACH.end_case()
        sig = core.exc_signature(e)
        ctx.violation(crash_key(sig), f"[docutils] {sig['type']} escaped publish_doctree: {sig['msg'][:200]}", case, {"text": text[:3000], "config": {k: repr(v)[:200] for k, v in kw.items()}, **sig})
        return None
    steps = REACH.end_case()
    ctx.count("docutils_documents_returned")
    ratio = steps / max(1, len(text))
    if steps > ctx.notes.get("max_steps", 0):
        ctx.notes["max_steps"] = steps
        ctx.notes["max_steps_text_len"] = len(text)
    return doc, w


# ------------------------------------------------------------------------------------------- workload pieces


def hostile_html(R):
    tags = ["img", "div", "p", "span", "IMG", "Div", "x-y", "script", "br", "a"]
    attrs = ['src="a.png"', "src", 'src=""', "src=a.png", "alt", 'alt="x"', "alt='y \" z'", 'class="admonition"', 'class="admonition note"', "class", 'class=""', 'name="n"', "name", 'width="10px"', "width=bad", "width",
             'height="x"', 'align="left"', "align", 'a="1" a="2"', "=x", '"', "'", "<", 'title="&amp;&#0;&#xD800;&#1114112;"', "\x00"]
    out = []
    for _ in range(R.randint(1, 4)):
        t = R.choice(tags)
        s = "<" + t + "".join(" " + R.choice(attrs) for _ in range(R.randint(0, 4))) + R.choice([">", "/>", "", " >", ">\n"])
        if R.random() < 0.5:
            s += R.choice(["text", '<p class="title">T</p>', "<p>", "</p>", "<img src>", "*md*", "&#42;", "\n\n", "<div>"]) + R.choice(["", f"</{t}>", "</div>", "</p></div>"])
        out.append(s)
    return R.choice(["", "> ", "- "]) + R.choice(["\n", " ", "\n\n"]).join(out) + "\n"


def hostile_options(R):
    keys = ["class", "name", "width", "nosuch", "", " ", "a b", "1", "-", "?", "&a", "*a", "!!str", "<<", "{", "[", "|", ">", "'", '"', "\\", "\x00", "\u2028", "k" * 300]
    vals = ["x", "", " ", "|", ">", "|2-", ">+9", "'unterminated", '"unterminated', '"\\x4"', '"\\x-1"', '"\\u-041"', '"\\U-0000041"', '"\\x+1"', '"\\x_1"', '"\\u 041"', '"\\uD800"', '"\\U00110000"', '"\\UFFFFFFFF"', "&anchor v", "*alias", "!!python/object:os.system x", "[a, b", "{a: b", "a: b: c", "# c", "- x",
            "\t", "\x00", "\u2028x", "\x85", "v" * 2000, "1e999", "~", "null", "2020-01-01", "0x1F", "0o17", "<<", "@x", "`y", "%z"]
    name = R.choice(["note", "image", "figure", "code-block", "admonition", "include", "csv-table", "table", "math", "raw", "container", "nosuch", "contents", "list-table", "meta", "role", "class", "epigraph", "parsed-literal"])
    arg = R.choice(["", "x", "a.png", "T i t l e", "html", "1 2 3", "\x00", "a" * 500])
    style = R.random()
    L = ["```{" + name + "} " + arg]
    n = R.randint(0, 4)
    if style < 0.45:
        L += [f":{R.choice(keys)}: {R.choice(vals)}" for _ in range(n)]
    elif style < 0.9:
        L += ["---"] + [f"{R.choice(keys)}: {R.choice(vals)}" for _ in range(n)] + [R.choice(["---", "----", "", "..."])]
    L += [R.choice(["", "body", "    indented", "| a |", ": x", "- - a", "1,2", ".. rst"]) for _ in range(R.randint(0, 3))] + ["```"]
    return "\n".join(L) + "\n"


LINK_FORMS = ["[t]({d})", "[]({d})", "<{d}>", "[t](<{d}>)", "![a]({d})", "![a](<{d}>)", "[t][r]\n\n[r]: {d}", "![a][r]\n\n[r]: {d}", "[![a]({d})](x.md)", "<project:{d}>", "<path:{d}>", "[t](path:{d})", "[](inv:{d})", "[t](#{d})",
              "```{{include}} {d}\n```", "```{{figure}} {d}\n```", "```{{image}} {d}\n```", "```{{literalinclude}} {d}\n```", "```{{toctree}}\n{d}\n```", "```{{figure-md}}\n![a]({d})\n\ncap\n```", "{{doc}}`{d}`", "{{download}}`{d}`",
              "```{{image}} i.png\n:target: {d}\n```", "```{{csv-table}}\n:file: {d}\n```"]


def hostile_links(R):
    d = R.choice(HOSTILE_DEST)
    forms = [f"[t]({d})", f"[]({d})", f"<{d}>", f"[t](<{d}>)", f"![a]({d})", f"[t][r]\n\n[r]: {d}", f"[t]({d} 'title')", f"<project:{d}>", f"<path:{d}>", f"[](inv:{d})", f"[t](#{d})", f"{{ref}}`{d}`", f"{{doc}}`{d}`",
             f"```{{include}} {d}\n```", f"```{{figure}} {d}\n```", f"```{{literalinclude}} {d}\n```", f"```{{image}} {d}\n```", f"```{{toctree}}\n{d}\n```", f"```{{figure-md}}\n![a]({d})\n```"]
    return "\n\n".join(R.choice(forms) for _ in range(R.randint(1, 3))) + "\n"


def make_text(R):
    k = R.randrange(10)
    if k <= 2:
        return "soup", G.soup(R)
    if k == 3:
        g = G.Gen(R, hr_in_container=True, max_depth=R.randint(2, 6))
        return "grammar", g.document(1, 6)[0]
    if k == 4:
        g = G.Gen(R, hr_in_container=True)
        return "mutated", G.mutate(R, g.document(1, 4)[0], R.randint(1, 6))
    if k == 5:
        fm = R.choice(G.FRONT_SOUP)
        if R.random() < 0.3:
            fm = G.mutate(R, fm, 2)
        return "frontmatter", "---\n" + fm + "\n" + R.choice(["---", "...", "----", ""]) + "\n" + G.soup(R, 3)
    if k == 6:
        return "html", hostile_html(R) + "\n" + G.soup(R, 2)
    if k == 7:
        return "options", hostile_options(R)
    if k == 8:
        return "links", hostile_links(R)
    lines = [R.choice(G.soup_vocab()) for _ in range(R.randint(1, 5))]
    return "long", "\n".join(lines) + "\n" + R.choice(["x" * 10000, "> " * 300 + "deep", "- " * 200 + "deep", "*" * 3000, "[" * 2000, "`" * 4001, "<" * 3000, "\\" * 5000, ("|a" * 400 + "|\n") + ("|-" * 400 + "|\n"), "{{" * 1500, "$" * 3001])


CFG_VALUE_SOUP = [".nan", ".inf", "-.inf", "0", "-1", "1", "7", "8", "1.5", "200.0", "1e999", "99999999999999999999999999", "true", "false", "~", "''", "x", "' '", "[]", "{}", "[~]", "{a: ~}", "[[a]]", "{a: {b: c}}", "[.nan]", "{a: .nan}",
                  "2020-01-01", "!!binary aGk=", "[x, x]", "[1, 2]", "{1: 2}", "os.path.basename", "[note]", "[deflist, nosuch]", "'{'", "['', '']", "[ab, cd]", "[a, b]", "{http: ~}", "{x: {url: 1}}", "{x: {nosuch: y}}", "[myst.header]", "-0.0",
                  "1_0", "0x10", "'7'", "[amsmath, dollarmath]", "{k: [a, b]}", "{k: [a, ~]}", "{k: [a]}", "{k: v}"]
CFG_VALUE_TEXT = ("# Title\n\ntext *em* [l](u.md) <https://e.org> `c` $m$ {{ k }} {sub}`r` ~~s~~ \"q\" (c) word[^f]\n\n[^f]: note\n\n## Sub\n\n- [ ] task\n\n```python\ncode\n```\n\n```{note}\nn\n```\n\n:::{tip}\nt\n:::\n\n"
                  "| a |\n|---|\n| b |\n\nterm\n: def\n\n:field: v\n\n$$\nx\n$$ (lbl)\n\n\\begin{equation}\ny\n\\end{equation}\n\n<div class=\"admonition\">x</div>\n\n<img src=\"i.png\">\n\n[](#sub) [](inv:k#x) <wiki:P>\n\n{a=b}\npara\n")

OPTION_VALUES = ["", "x", "0", "-1", "1.5", "10px", "50%", "200%", "a b", "left", "image", "auto", "nosuch-encoding", "1 2 3", "\"q\"", "'", "\\", "é", "99999999999999999999", "#", "U+110000", "x" * 300]
ATTR_LINES = ["{#aid}", "{.cls}", "{#aid .cls k=v}", "{#lbl}", "{#aid}\n{#bid .c2}", "{#Upper_Id}", "{#aid #aid2}", "{k=v}"]
ATTR_BLOCKS = ["$$\nx\n$$ (lbl)", "$$\nx\n$$", "$$ x $$ (lbl)", "\\begin{equation}\ny\n\\end{equation}", "\\begin{align*}\ny\n\\end{align*}", "| a |\n|---|\n| b |", "```python\ncode\n```", "- item", "1. item", "> quote", "# heading", "text\n===",
               "```{note}\nx\n```", ":::{tip}\nx\n:::", "<div>html</div>", "***", "term\n: def", ":field: v", "[^f]: note", "(tgt)=", "(lbl)=", "[ref]: http://x", "![img](i.png)", "{{ k }}", "% comment", "+++", "    indented code",
               "```{figure} i.png\ncap\n```", "```{math}\n:label: lbl\nx\n```", "```{code-block} python\n:name: cb\nx\n```", "- [ ] task", "<img src='i.png'>", "<div class='admonition'>x</div>", "```{include} ok.md\n```", "```{eval-rst}\n.. _lbl:\n\ntext\n```",
               "```{list-table}\n* - a\n```", "```{image} i.png\n```", "```{contents}\n```", "```{raw} html\n<b>\n```", "{#inner}\npara"]
GROWTH_TEMPLATES = [('<img src="a.png" alt="VALUE (2019)">\n', ["html_image"]), ('<img src="a.png" width="VALUEpx;">\n', ["html_image"]), ('<div class="admonition" name="VALUE!">\n<p>x</p>\n</div>\n', ["html_admonition"]),
                    ('<div class="admonition VALUE?">x</div>\n', ["html_admonition"]), ("```{note}\n:class: VALUE !\n\nx\n```\n", []), ("[t](<VALUE (x>)\n", []), ("{{ VALUE ( }}\n", ["substitution"]), ("![a](i.png){w=VALUE!}\n", ["attrs_inline"])]
ISOLATION = [
    ["```{note}", "before {mvboom}`x` after", "```"], ["> ```{note}", "> {mvboom}`x`", "> ```"], ["````{tip}", "```{note}", "{mvboom}`x`", "```", "````"], ["```{mvboomdir}", "body", "```"],
    ["````{mvboomafter}", "## heading inside", "", "```{note}", "x", "```", "````"], ["```{include} boominc.md", "```"], ["- item", "", "  ```{note}", "  {mvboom}`x`", "  ```"], [":::{note}", "{mvboom}`x`", ":::"],
    ["```{figure} i.png", "caption {mvboom}`x`", "```"], ["```{list-table}", "* - {mvboom}`x`", "```"], ["```{admonition} Title", ":class: c", "", "{mvboom}`x`", "```"],
]


def eval_isolation(ctx, case):
    """A role / directive implementation that raises INSIDE a directive is reported there; the rest of the document is rendered as if nothing had happened."""
    from docutils import nodes

    mid = ISOLATION[case["shape"] % len(ISOLATION)]
    text = "\n".join(["# First", "", "para one", ""] + mid + ["", "## Second ISOSECOND", "", "ISOENDMARK paragraph", "", "# Third ISOTHIRD", "", "last ISOLAST"]) + "\n"
    r = run_docutils(ctx, {**case, "text": text}, text, {"myst_enable_extensions": ["colon_fence"]}, src=os.path.join(TMP, "iso.md"))
    if r is None:
        return False  # the crash itself was recorded by run_docutils (a role failing outside any directive is the extension's own crash)
    doc, w = r
    ctx.count("isolation_cases")
    secs = {s[0].astext().split()[-1]: s for s in doc.findall(nodes.section) if len(s) and isinstance(s[0], nodes.title)}
    txt = doc.astext()
    prob = None
    if "ISOENDMARK" not in txt or "ISOLAST" not in txt:
        prob = "the text after the failing construct is missing from the document"
    elif "ISOSECOND" not in secs or "ISOTHIRD" not in secs:
        prob = f"the headings after the failing construct did not become sections (sections: {sorted(secs)})"
    elif not isinstance(secs["ISOTHIRD"].parent, nodes.document) or secs["ISOSECOND"].parent is not next(iter(doc.findall(nodes.section))):
        prob = "the sections after the failing construct are attached to the wrong parent"
    if prob:
        ctx.violation("isolation:rest-of-document-damaged-after-failing-directive", prob, case, {"text": text, "doctree": doc.pformat()[:2500], "warnings": w[-800:]})
    if not re.search(r"failed|ERROR|error", w):
        ctx.violation("isolation:failure-not-reported", "the failing role / directive left no message in the warning stream", case, {"text": text, "warnings": w[-800:]})
    return True


def eval_doc(ctx, case):
    if case.get("sub") == "isolation":
        return eval_isolation(ctx, case)
    text, cfg = case["text"], case.get("cfg", {})
    kw = G.cfg_to_overrides(cfg)
    kw.setdefault("myst_inventories", {"inv": ["https://e.org", os.path.join(TMP, "good.inv")]}) if case.get("inv") else None
    kw.update(case.get("settings", {}))  # plain docutils settings (security switches, limits, report levels)
    r = run_docutils(ctx, case, text, kw)
    ctx.count("kind:" + case.get("sub", "?"))
    return r is not None


# ------------------------------------------------------------------------------------------- fault sequences

INCLUDE_TARGETS = {
    "missing": ("nosuchfile.md", "file not found|No such file"),
    "directory": ("adir", "error reading file|Is a directory|directory"),
    "latin1": ("latin1.md", "error reading file|codec|decode"),
    "binary": ("binary.md", "error reading file|codec|decode"),
    "self": ("self.md", "."),
    "mutual": ("mut_a.md", "."),
    "empty": ("empty.md", None),
    "ok": ("ok.md", None),
    "bad_front_matter": ("fm.md", None),
    "dotdot": ("../" * 30 + "nothing.md", "file not found|No such file|error reading"),
    "toolong": ("n" * 300 + ".md", "error reading file|File name too long|not found"),
    "nul": ("a\x00b.md", "."),
}
INV_TARGETS = ["good.inv", "trunc.inv", "badhdr.inv", "v9.inv", "garbage.inv", "emptyfile.inv", "nosuch.inv", "adir", "latin1.md"]


class Failpoint:
    """Scripted faults on pathlib.Path.read_text for paths under TMP only."""

    def __init__(self, script):
        self.script = list(script)
        self.hits = []
        self.orig = pathlib.Path.read_text

    def __enter__(self):
        fp = self

        def read_text(self_, *a, **k):
            s = str(self_)
            if TMP in s and s.endswith(".md") and "doc.md" not in s:
                action = fp.script.pop(0) if fp.script else "ok"
                fp.hits.append((os.path.basename(s), action))
                if action == "EACCES":
                    raise PermissionError(errno.EACCES, "Permission denied (injected)", s)
                if action == "EIO":
                    raise OSError(errno.EIO, "Input/output error (injected)", s)
                if action == "EMFILE":
                    raise OSError(errno.EMFILE, "Too many open files (injected)", s)
                if action == "decode":
                    raise UnicodeDecodeError("utf-8", b"\xff", 0, 1, "invalid start byte (injected)")
                if action == "ESTALE":
                    raise OSError(errno.ESTALE, "Stale file handle (injected)", s)
                if action == "interrupted":
                    raise InterruptedError(errno.EINTR, "Interrupted (injected)", s)
            return fp.orig(self_, *a, **k)

        pathlib.Path.read_text = read_text
        return self

    def __exit__(self, *a):
        pathlib.Path.read_text = self.orig


def eval_fault(ctx, case):
    from docutils import nodes

    lines = ["start", ""]
    expects = []
    for i, item in enumerate(case["items"]):
        kind, opts = item[0], item[1]
        if kind == "include":
            path, pat = INCLUDE_TARGETS[opts["target"]]
            L = ["```{include} " + path] + [f":{k}: {v}" if v != "" else f":{k}:" for k, v in opts.get("options", {}).items()] + ["```"]
            expects.append((opts["target"], pat))
        else:
            L = [f"[](inv:k{i}#mod.func)"]
        lines += L + ["", f"between {i}", ""]
    lines += ["ENDMARKER", ""]
    text = "\n".join(lines)
    kw = {}
    invs = {}
    for i, item in enumerate(case["items"]):
        if item[0] == "inv":
            invs[f"k{i}"] = ["https://e.org/" + str(i), os.path.join(TMP, item[1]["target"])]
    if invs:
        kw["myst_inventories"] = invs
    script = case.get("script", [])
    with Failpoint(script) as fp:
        r = run_docutils(ctx, case, text, kw)
    if r is None:
        return False
    doc, w = r
    ctx.count("fault_documents")
    ctx.count("failpoints_hit", sum(1 for _, a in fp.hits if a != "ok"))
    detail = {"text": text, "warnings": w[-2000:], "failpoint_hits": fp.hits}
    if "ENDMARKER" not in doc.astext():
        ctx.violation("fault:rest-of-document-lost", "the trailing marker paragraph is missing after an include/inventory fault", case, detail)
    n_between = len(re.findall(r"between \d+", doc.astext()))
    if n_between < len(case["items"]):
        ctx.violation("fault:rest-of-document-lost", f"only {n_between} of {len(case['items'])} intermediate paragraphs were rendered", case, detail)
    # every injected fault that was hit must be reported
    injected = [(f, a) for f, a in fp.hits if a != "ok"]
    if injected:
        nrep = len(re.findall(r"injected", w))
        if nrep < len(injected):
            ctx.violation("fault:injected-error-swallowed", f"{len(injected)} injected read faults were hit but {nrep} are reported", case, detail)
        else:
            ctx.count("injected_faults_reported", nrep)
    if not script:
        for tgt, pat in expects:
            if pat and pat != "." and not re.search(pat, w) and not any(it[0] == "include" and it[1]["target"] == tgt and "encoding" in it[1].get("options", {}) for it in case["items"]):
                ctx.violation(f"fault:not-reported:{tgt}", f"include of the {tgt} target produced no message matching /{pat}/", case, detail)
            elif pat:
                ctx.count("real_faults_reported")
    for i, item in enumerate(case["items"]):
        if item[0] == "inv" and item[1]["target"] != "good.inv":
            if not re.search(rf"Failed to load inventory 'k{i}'", w) and not re.search(r"inv_retrieval", w):
                ctx.violation("fault:inventory-not-reported", f"inventory {item[1]['target']} failed silently", case, detail)
            else:
                ctx.count("real_faults_reported")
    return True


# ------------------------------------------------------------------------------------------- Sphinx


def eval_sphinx(ctx, case):
    files = {"index.md": case["text"], "other.md": "# Other\n\n(lbl)=\npara\n", "sub/deep.md": "# Deep\n", "data.txt": "x", "adir/x.txt": "x"}
    conf = {"myst_" + k: v for k, v in case.get("cfg", {}).items() if k not in ("highlight_code_blocks", "suppress_warnings", "inventories")}
    conf["exclude_patterns"] = ["_build"]
    if case.get("cfg", {}).get("suppress_warnings"):
        conf["suppress_warnings"] = list(case["cfg"]["suppress_warnings"])  # Sphinx' own setting is what MyST reads there
    b = drive.SphinxBuild(files, conf=conf, builder=case.get("builder", "dummy"))
    try:
        REACH.begin_case(budget(case["text"]) * 3)
        b.build()
        REACH.end_case()
        ctx.count("sphinx_builds_returned")
        ctx.count("kind:sphinx:" + case.get("sub", "?"))
        return True
    except core.StepBudgetExceeded as e:
        REACH.end_case()
        ctx.violation("termination:step-budget:sphinx", f"build exceeded its step budget: {e}", case, {"text": case["text"][:2000]})
    except KeyboardInterrupt:
        raise
    except BaseException as e:  # noqa: BLE001
        REACH.end_case()
        sig = core.exc_signature(e)
        ctx.violation("sphinx:" + crash_key(sig), f"[sphinx] {sig['type']} aborted the build: {sig['msg'][:200]}", case, {"text": case["text"][:3000], "conf": {k: repr(v)[:200] for k, v in conf.items()}, **sig})
    finally:
        b.close()
    return False


def eval_case(ctx, case):
    k = case["kind"]
    if k == "doc":
        return eval_doc(ctx, case)
    if k == "fault":
        return eval_fault(ctx, case)
    if k == "sphinx":
        return eval_sphinx(ctx, case)
    raise ValueError(k)


def rand_fault_case(R):
    items = []
    for _ in range(R.randint(1, 4)):
        if R.random() < 0.7:
            opts = {}
            if R.random() < 0.4:
                opts = R.choice([{"literal": ""}, {"code": "python"}, {"start-line": "1"}, {"end-line": "0"}, {"start-after": "nosuchmarker"}, {"end-before": "x"}, {"heading-offset": "9"}, {"encoding": "latin-1"}, {"encoding": "nosuch-codec"},
                                 {"relative-images": ""}, {"relative-docs": "x"}, {"number-lines": "x", "literal": ""}, {"tab-width": "-1"}, {"start-line": "-5", "end-line": "-9"}, {"class": "c", "name": "n", "literal": ""}])
            items.append(["include", {"target": R.choice(list(INCLUDE_TARGETS)), "options": opts}])
        else:
            items.append(["inv", {"target": R.choice(INV_TARGETS)}])
    case = {"kind": "fault", "items": items}
    if R.random() < 0.4:
        case["script"] = [R.choice(["ok", "EACCES", "EIO", "EMFILE", "decode", "ESTALE", "interrupted"]) for _ in range(R.randint(1, 5))]
        for it in case["items"]:
            if it[0] == "include":
                it[1]["target"] = R.choice(["ok", "ok", "empty", "bad_front_matter"])
    return case


def run_shard(ctx):
    R = ctx.rng
    quick = ctx.tier == "quick"
    # fault sequences first (cheap, and their share must not depend on how long the exhaustive matrices below take on a loaded machine)
    nf = 250 if quick else 12000
    for i in range(nf):
        case = rand_fault_case(R)
        eval_case(ctx, case)
        ctx.case(repr(case), True)
        if i == 0:
            ctx.sample(case)
        if (i & 0xF) == 0 and ctx.time_left() < ctx.budget_s * 0.5:
            break
    nd = 1400 if quick else 60000
    for i in range(nd):
        sub, text = make_text(R)
        cfg = G.random_config(R, suppress=True)
        if sub in ("html",):
            cfg["enable_extensions"] = sorted(set(cfg.get("enable_extensions", [])) | {"html_image", "html_admonition"})
        if sub in ("frontmatter", "soup", "mutated") and "substitution" in cfg.get("enable_extensions", []) and R.random() < 0.5:
            cfg.setdefault("substitutions", dict(G.SUBSTITUTIONS, rec="{{ rec }}", a="{{ b }}", b="{{ a }}", bad="{% for %}", big="{{ 'x' * 100 }}"))
        case = {"kind": "doc", "sub": sub, "text": text, "cfg": cfg, "inv": R.random() < 0.3}
        if R.random() < 0.2:
            # docutils' own settings that change which path the MyST parser takes before / after rendering
            case["settings"] = R.choice([{"line_length_limit": R.choice([1, 5, 40])}, {"raw_enabled": False}, {"file_insertion_enabled": 0}, {"report_level": R.choice([1, 4, 5])}, {"tab_width": 3},
                                         {"raw_enabled": 0, "file_insertion_enabled": False, "line_length_limit": 10}, {"language_code": R.choice(["de", "fr", "xx"])}, {"sectnum_xform": False, "doctitle_xform": True},
                                         {"strip_comments": True, "strip_classes": ["c"], "strip_elements_with_classes": ["x"]}, {"footnote_references": "brackets", "trim_footnote_reference_space": True}, {"id_prefix": "p-", "auto_id_prefix": "q"},
                                         {"smart_quotes": True}, {"syntax_highlight": "none"}, {"pep_references": True, "rfc_references": True}])
            ctx.count("docs_with_docutils_settings")
        eval_case(ctx, case)
        ctx.case((text, repr(cfg)), text.count("\n") >= 2)
        if i < 2:
            ctx.sample({"kind": "doc", "sub": sub, "text": text[:300], "cfg": cfg})
        if (i & 0x1F) == 0 and ctx.time_left() < ctx.budget_s * 0.42:
            break
    # every syntax rule of the Markdown parser switched off on its own (disable_syntax accepts any rule name): the parse must still end
    from markdown_it.renderer import RendererHTML

    from myst_parser.config.main import MdParserConfig
    from myst_parser.parsers.mdit import create_md_parser

    allr = create_md_parser(MdParserConfig(enable_extensions=[e for e in G.ALL_EXT if e != "linkify"]), RendererHTML).get_all_rules()
    rule_names = sorted({n for v in allr.values() for n in v})
    text_r = "# H\n\ntext *em* [l](u) `c` <b>x</b> &amp; \\* $m$ {sub}`r`\n\n- item\n\n> q\n\n```\ncode\n```\n\n| a |\n|---|\n\n[r]: u\n\nterm\n: def\n\n***\n"
    for k, nm in enumerate(rule_names):
        if k % ctx.nshards != ctx.shard:
            continue
        case = {"kind": "doc", "sub": "rule-disabled", "text": text_r, "cfg": {"disable_syntax": [nm], "enable_extensions": [e for e in G.ALL_EXT if e != "linkify"]}, "alarm_s": 5}
        eval_case(ctx, case)
        ctx.case(("rule-disabled", nm), True)
        ctx.count("rules_disabled_one_by_one")
    ctx.subrun("each_rule_disabled", exhaustive=True, rules=len(rule_names) if ctx.shard == 0 else 0)
    # every MdParserConfig field x a soup of YAML values, as a front-matter override and as the global setting: whatever the configuration layer
    # accepts must render, whatever it rejects must be reported, and either way a document comes back
    import dataclasses as _dc

    import yaml as _yaml

    fields = [f.name for f in _dc.fields(MdParserConfig)]
    k = 0
    for fn in fields:
        for vi, ytxt in enumerate(CFG_VALUE_SOUP):
            k += 1
            if k % ctx.nshards != ctx.shard:
                continue
            try:
                pyv = _yaml.safe_load(ytxt)
            except Exception:  # noqa: BLE001
                continue
            front = "---\nmyst:\n  " + fn + ": " + ytxt + "\n---\n" + CFG_VALUE_TEXT
            if fn == "gfm_only" and pyv:
                continue  # needs linkify-it-py, which is not installed here (MyST raises ModuleNotFoundError by design)
            if fn == "enable_extensions" and isinstance(pyv, (list, tuple, str)) and "linkify" in pyv:
                continue
            case = {"kind": "doc", "sub": "cfg-value-front", "text": front, "cfg": {"enable_extensions": [e for e in G.ALL_EXT if e != "linkify"]}, "alarm_s": 10}
            eval_case(ctx, case)
            ctx.case(("cfg-value-front", fn, ytxt), True)
            try:
                MdParserConfig(**{fn: pyv})
            except Exception:  # noqa: BLE001
                ctx.count("cfg_values_rejected_by_the_configuration_layer")
                continue  # not a valid MdParserConfig value: outside the property's quantifier as a global setting (the front-matter route above still ran)
            ctx.count("cfg_values_accepted_by_the_configuration_layer")
            case = {"kind": "doc", "sub": "cfg-value-global", "text": CFG_VALUE_TEXT, "cfg": {fn: pyv}, "alarm_s": 10}
            eval_case(ctx, case)
            ctx.case(("cfg-value-global", fn, ytxt), True)
            ctx.count("cfg_field_value_pairs")
    ctx.subrun("config_field_value_matrix", exhaustive=True, fields=len(fields), values=len(CFG_VALUE_SOUP))
    # every docutils directive x every one of its options x awkward values, end to end: whatever the option converter returns or raises, and whatever
    # the directive's run() then does with it, the document comes back (C08 judges the split itself; here the whole pipeline runs)
    import importlib

    from docutils.parsers.rst import directives as _D

    k = 0
    for dname, (modname, clsname) in sorted(_D._directive_registry.items()):
        try:
            dcls = getattr(importlib.import_module("docutils.parsers.rst.directives." + modname), clsname)
        except Exception:  # noqa: BLE001
            continue
        if dname in ("restructuredtext-test-directive",):
            continue
        arg = {"image": "i.png", "figure": "i.png", "include": "ok.md", "raw": "html", "code": "python", "sourcecode": "python", "code-block": "python", "role": "mvr(emphasis)", "unicode": "U+2014", "date": "%Y", "replace": "x", "class": "c",
               "default-role": "emphasis", "title": "T", "meta": "", "csv-table": "T", "table": "T", "list-table": "T"}.get(dname, "Title" if (dcls.required_arguments or dcls.optional_arguments) else "")
        body = {"list-table": "* - a\n  - b", "csv-table": "a,b", "table": "| a |\n|---|", "math": "x", "meta": ":k: v"}.get(dname, "body text" if dcls.has_content else "")
        for oname in sorted(x for x in (dcls.option_spec or {}) if isinstance(x, str)) + (["relative-images", "relative-docs", "heading-offset"] if dname == "include" else []):
            for v in OPTION_VALUES:
                k += 1
                if k % ctx.nshards != ctx.shard:
                    continue
                text = f"before\n\n```{{{dname}}} {arg}\n:{oname}: {v}\n\n{body}\n```\n\nafter OPTEND\n"
                case = {"kind": "doc", "sub": "directive-option-value", "text": text, "cfg": {}, "alarm_s": 10}
                eval_case(ctx, case)
                ctx.case(("directive-option-value", dname, oname, v), True)
                ctx.count("directive_option_value_documents")
    ctx.subrun("every_docutils_directive_option_value", exhaustive=True, values=len(OPTION_VALUES))
    # a block-attribute line in front of EVERY kind of block (attrs_block applies to whatever block follows), alone and twice (duplicate ids), both front ends
    k = 0
    sph_parts = []
    all_ext = [e for e in G.ALL_EXT if e != "linkify"]
    for ai, al in enumerate(ATTR_LINES):
        for bi, bl in enumerate(ATTR_BLOCKS):
            for twice in (False, True):
                k += 1
                if k % ctx.nshards != ctx.shard:
                    continue
                one = al + "\n" + bl + "\n"
                text = "before\n\n" + one + ("\n" + one if twice else "") + "\nafter [a](#aid) [l](#lbl) {eq}`lbl`\n"
                case = {"kind": "doc", "sub": "attrs-before-block", "text": text, "cfg": {"enable_extensions": all_ext, "substitutions": {"k": "v"}}, "alarm_s": 10}
                eval_case(ctx, case)
                ctx.case(("attrs-before-block", ai, bi, twice), True)
                ctx.count("attrs_before_block_documents")
                sph_parts.append(text)
    for j in range(0, len(sph_parts), 8):
        case = {"kind": "sphinx", "sub": "attrs-before-block", "text": "# T\n\n" + "\n\n".join(sph_parts[j:j + 8]), "cfg": {"enable_extensions": all_ext, "substitutions": {"k": "v"}}, "builder": "html" if (j // 8) % 2 else "dummy"}
        eval_case(ctx, case)
        ctx.case(("sphinx-attrs-before-block", case["text"]), True)
    ctx.subrun("attrs_before_every_block", exhaustive=True, attribute_lines=len(ATTR_LINES), blocks=len(ATTR_BLOCKS))
    # work that happens inside C code (regular-expression backtracking) makes no Python function entries, so the step budget cannot see it:
    # attribute values of growing length are timed on SMALL sizes and judged by growth (doubling per character), never by an absolute deadline
    if ctx.shard < len(GROWTH_TEMPLATES):
        import time as _time

        tpl, exts_ = GROWTH_TEMPLATES[ctx.shard]
        times = {}
        for n_ in (6, 10, 14, 18, 22):
            text_g = tpl.replace("VALUE", "a" * n_)
            best = None
            for _rep in range(2):
                t0 = _time.perf_counter()
                try:
                    drive.parse(text_g, myst_enable_extensions=exts_)
                except Exception:  # noqa: BLE001
                    pass
                dt = _time.perf_counter() - t0
                best = dt if best is None else min(best, dt)
            times[n_] = best
            if best > 5:
                break
        ctx.count("growth_series_timed")
        last = max(times)
        prev = max(k_ for k_ in times if k_ < last) if len(times) > 1 else None
        if times[last] > 0.15 and prev is not None and times[last] / max(times[prev], 1e-4) > 5 and times[prev] / max(times[min(times)], 1e-4) > 2:
            ctx.violation("termination:time-grows-exponentially-with-attribute-length", f"rendering {tpl!r} takes {', '.join(f'{k_}: {v_ * 1000:.0f} ms' for k_, v_ in sorted(times.items()))} for values of that many characters: the time multiplies with every few characters", {"kind": "doc", "sub": "growth", "text": tpl.replace("VALUE", "a" * last), "cfg": {"enable_extensions": exts_}}, {"times": times})
    for k in range(len(ISOLATION)):
        if k % ctx.nshards == ctx.shard % len(ISOLATION) or ctx.nshards <= k:
            case = {"kind": "doc", "sub": "isolation", "shape": k, "text": ""}
            eval_case(ctx, case)
            ctx.case(("isolation", k), True)
    # every link form x every hostile destination through the Sphinx front end (partitioned over the shards)
    k = 0
    batch = []
    for fi, form in enumerate(LINK_FORMS):
        for di, d in enumerate(HOSTILE_DEST):
            k += 1
            if k % ctx.nshards == ctx.shard:
                batch.append(f"para {fi}-{di}\n\n" + form.format(d=d) + "\n")
    # several constructs per build keep this affordable; a failing build is bisected by re-running its members alone
    for j in range(0, len(batch), 6):
        texts = batch[j:j + 6]
        mcfg = {"enable_extensions": ["attrs_inline", "colon_fence"]}
        if (j // 6) % 2:
            # schemes rendered through a template (every template variable is filled in for each link)
            mcfg["url_schemes"] = {"http": None, "https": None, "wiki": "https://en.wikipedia.org/wiki/{{path}}#{{fragment}}", "gh": {"url": "https://github.com/{{path}}", "title": "{{netloc}} {{path}} {{query}}", "classes": ["gh"]}}
        case = {"kind": "sphinx", "sub": "link-matrix", "text": "\n\n".join(texts), "cfg": mcfg, "builder": "html" if j % 4 == 0 else "dummy"}
        # the same constructs through the docutils front end
        dcase = {"kind": "doc", "sub": "link-matrix", "text": case["text"], "cfg": mcfg}
        eval_case(ctx, dcase)
        ctx.case(("docutils-matrix", case["text"], repr(mcfg)), True)
        before = len(ctx.violations)
        ok = eval_case(ctx, case)
        ctx.case(("sphinx-matrix", case["text"]), True)
        ctx.count("sphinx_link_matrix_constructs", len(texts))
        if ctx.out_of_time():
            break
    ctx.subrun("sphinx_link_matrix", forms=len(LINK_FORMS), destinations=len(HOSTILE_DEST), exhaustive=not ctx.out_of_time())
    # Sphinx' own directives (and those of its domains) x their options x awkward values through the Sphinx front end, several constructs per build
    try:
        from .c08 import collect_classes

        sph = {k: v for k, v in collect_classes().items() if k.startswith(("sphinx:", "domain:")) and isinstance(v, type)}
    except Exception:  # noqa: BLE001
        sph = {}
    combos = []
    for key in sorted(sph):
        dname = key.split(":", 1)[1] if key.startswith("sphinx:") else key.split(":", 1)[1]
        dcls = sph[key]
        if dname in ("restructuredtext-test-directive",):
            continue
        for oname in sorted(x for x in (getattr(dcls, "option_spec", None) or {}) if isinstance(x, str)):
            for v in OPTION_VALUES:
                combos.append((dname, dcls, oname, v))
    Rc = random.Random(ctx.seed * 1000 + 17)
    Rc.shuffle(combos)
    mine = combos[ctx.shard::ctx.nshards][: (36 if quick else 3000)]
    for j in range(0, len(mine), 6):
        parts = []
        for dname, dcls, oname, v in mine[j:j + 6]:
            arg = {"image": "i.png", "figure": "i.png", "include": "other.md", "literalinclude": "data.txt", "raw": "html", "code": "python", "sourcecode": "python", "code-block": "python", "highlight": "python", "role": "mvr(emphasis)", "unicode": "U+2014",
                   "date": "%Y", "replace": "x", "class": "c", "rst-class": "c", "default-role": "emphasis", "title": "T", "meta": "", "csv-table": "T", "table": "T", "list-table": "T", "toctree": "", "only": "html", "ifconfig": "True",
                   "tabularcolumns": "|l|", "default-domain": "py", "currentmodule": "m", "py:currentmodule": "m"}.get(dname, "name" if (dcls.required_arguments or dcls.optional_arguments) else "")
            body = {"list-table": "* - a\n  - b", "csv-table": "a,b", "table": "| a |\n|---|", "math": "x", "meta": ":k: v", "toctree": "other", "productionlist": "a: b"}.get(dname, "body text" if getattr(dcls, "has_content", False) else "")
            parts.append(f"```{{{dname}}} {arg}\n:{oname}: {v}\n\n{body}\n```\n")
        case = {"kind": "sphinx", "sub": "directive-option-value", "text": "# T\n\n" + "\n".join(parts) + "\nafter OPTEND\n", "cfg": {}, "builder": "html" if (j // 6) % 3 == 0 else "dummy"}
        eval_case(ctx, case)
        ctx.case(("sphinx-directive-option-value", case["text"]), True)
        ctx.count("sphinx_directive_option_value_constructs", len(parts))
        if ctx.out_of_time():
            break
    ns = 60 if quick else 4000
    for i in range(ns):
        sub, text = make_text(R)
        if i % 3 == 0:
            sub, text = "links", hostile_links(R)
        cfg = G.random_config(R, allow_modes=False, suppress=True)
        case = {"kind": "sphinx", "sub": sub, "text": text, "cfg": cfg, "builder": "dummy" if i % 4 else "html"}
        eval_case(ctx, case)
        ctx.case(("sphinx", text, repr(cfg)), text.count("\n") >= 2)
        if i == 0:
            ctx.sample({"kind": "sphinx", "sub": sub, "text": text[:300], "cfg": cfg})
        if ctx.out_of_time():
            break


def finalize(m, tier):
    c = m["counters"]
    for k, lo in (("docutils_documents_returned", 12000), ("fault_documents", 2000), ("failpoints_hit", 500), ("injected_faults_reported", 500), ("real_faults_reported", 1000), ("sphinx_builds_returned", 400)):
        if c.get(k, 0) < lo:
            m["inconclusive"].append(f"monitor observed only {c.get(k, 0)} '{k}' events (< {lo})")
    mon.require_reach(m, ANCHORS)
