"""G-doc: recursive grammar over CommonMark + GFM + MyST blocks in which every leaf carries a unique marker word.

The generator owns the ground truth: for every marker it knows the 1-based line of the construct that carries it, the
kind of that construct and the chain of containers (kind, first line) around it.  ``Frag`` = lines + marks; containers
prefix the lines and shift the marks.  Nothing here imports the code under test.
"""

from __future__ import annotations

import json
import os

SPEC_PATH = "tests/test_commonmark/commonmark.json"

ALL_EXT = [
    "amsmath", "attrs_block", "attrs_inline", "colon_fence", "deflist", "dollarmath", "fieldlist", "html_admonition",
    "html_image", "replacements", "smartquotes", "strikethrough", "substitution", "tasklist",
]  # linkify needs linkify-it-py (not installed); attrs_image is the deprecated alias of attrs_inline


def spec_examples(repo):
    with open(os.path.join(repo, SPEC_PATH), encoding="utf8") as f:
        return json.load(f)


class Frag:
    """lines + marks.  mark = {"m": marker, "off": 0-based line of the construct, "kind": str, "chain": [[kind, off], ...]}"""

    __slots__ = ("lines", "marks", "tick", "colon")

    def __init__(self, lines, marks=None, tick=0, colon=0):
        self.lines = lines
        self.marks = marks or []
        self.tick = tick  # longest backtick fence inside
        self.colon = colon  # longest colon fence inside

    def shifted(self, n):
        for mk in self.marks:
            mk["off"] += n
            for c in mk["chain"]:
                c[1] += n
        return self


def join(frags, sep=1):
    """Concatenate fragments with ``sep`` blank lines between them."""
    lines, marks, tick, colon = [], [], 0, 0
    for i, f in enumerate(frags):
        if i:
            lines.extend([""] * sep)
        f.shifted(len(lines))
        lines.extend(f.lines)
        marks.extend(f.marks)
        tick, colon = max(tick, f.tick), max(colon, f.colon)
    return Frag(lines, marks, tick, colon)


def wrap(kind, frag, first_prefix, rest_prefix, head=(), tail=(), tick=0, colon=0, blank_prefix=None):
    """Put ``frag`` in a container: ``head`` lines, then body lines prefixed, then ``tail`` lines."""
    if blank_prefix is None:
        blank_prefix = rest_prefix.rstrip()
    body = []
    for i, ln in enumerate(frag.lines):
        p = first_prefix if i == 0 else rest_prefix
        body.append((p + ln) if ln else (p.rstrip() if i == 0 else blank_prefix))
    frag.shifted(len(head))
    for mk in frag.marks:
        mk["chain"].insert(0, [kind, 0])
    return Frag(list(head) + body + list(tail), frag.marks, max(frag.tick, tick), max(frag.colon, colon))


class Gen:
    """Seeded document generator.  ``feats`` restricts the block / inline kinds."""

    BLOCKS_STATIC = [
        "para", "para", "para", "atx", "setext", "bullet", "ordered", "quote", "hr", "icode", "fence", "fence_lang",
        "html", "table", "target", "comment", "blockbreak", "mathblock", "deflist", "fieldlist", "footdef", "tasklist",
        "attrs_para", "div",
    ]
    BLOCKS_DYNAMIC = ["directive", "directive", "colon_directive", "code_directive", "role_para", "subst_block", "unknown_directive"]
    INLINES_STATIC = ["em", "strong", "code", "url", "auto", "image", "hard", "soft", "math", "span", "strike", "fnref", "html_inline", "entity", "escape"]
    INLINES_DYNAMIC = ["role", "subst", "anchor", "intlink", "unknown_role"]

    ADMON = ["note", "warning", "tip", "important", "attention", "caution", "danger", "error", "hint", "seealso"]

    def __init__(self, rng, blocks=None, inlines=None, max_depth=4, hr_in_container=False, heading_in_container=True, prefix="mk", exotic=False):
        self.r = rng
        self.exotic = exotic  # words may contain characters that str.splitlines() treats as line ends, astral and zero-width characters
        self.blocks = list(blocks if blocks is not None else self.BLOCKS_STATIC + self.BLOCKS_DYNAMIC)
        self.inlines = list(inlines if inlines is not None else self.INLINES_STATIC + self.INLINES_DYNAMIC)
        self.max_depth = max_depth
        self.hr_in_container = hr_in_container
        self.heading_in_container = heading_in_container
        self.n = 0
        self.prefix = prefix
        self.foot = 0
        self.targets = []
        self.footlabels = []

    # ---- leaves
    def marker(self):
        self.n += 1
        return f"{self.prefix}{self.n}"

    def words(self, lo=0, hi=3):
        W = ["alpha", "beta", "gamma", "delta", "x", "y1", "Zed", "über", "naïve", "a.b", "c,d", "e;f", "it's", '"q"', "1", "42"]
        if self.exotic and self.r.random() < 0.25:
            W = W + ["ff\x0cfeed", "ls\u2028sep", "nel\x85x", "nb\u00a0sp", "zw\u200bsp", "\U0001F600", "fs\x1cx", "vt\x0bx", "ps\u2029x"]
        return " ".join(self.r.choice(W) for _ in range(self.r.randint(lo, hi)))

    def inline(self, depth=0):
        r = self.r
        k = r.choice(self.inlines) if self.inlines else "text"
        w = self.words(1, 2)
        if k == "em":
            return f"*{w}*"
        if k == "strong":
            return f"**{w}**"
        if k == "code":
            return r.choice([f"`{w}`", f"``{w} ` tick``", "`a  b`"])
        if k == "url":
            return r.choice([f"[{w}](https://example.com/{r.randint(0, 9)})", f'[{w}](https://example.com "a title")', f"[*{w}*](<https://example.com/a b>)"])
        if k == "auto":
            return r.choice(["<https://example.org/x>", "<mailto:a@b.c>"])
        if k == "image":
            return r.choice([f"![{w}](img{r.randint(0, 3)}.png)", f'![{w}](i.png "ttl")', f"![*{w}*](i.png)"])
        if k == "hard":
            return "a\\\nb"
        if k == "soft":
            return "a\nb"
        if k == "math":
            return r.choice(["$x^2$", "$a_b$"])
        if k == "span":
            return f"[{w}]{{.cls #id{self.n}x{r.randint(0, 999)}}}"
        if k == "strike":
            return f"~~{w}~~"
        if k == "fnref":
            self.foot += 1
            lab = f"fn{self.foot}"
            self.footlabels.append(lab)
            return f"[^{lab}]"
        if k == "html_inline":
            return r.choice(["<b>bold</b>", "<span class='x'>s</span>", "<br>", "<!-- c -->"])
        if k == "entity":
            return r.choice(["&amp;", "&copy;", "&#35;", "&#x22;", "&nosuch;"])
        if k == "escape":
            return r.choice(["\\*", "\\_", "\\\\", "\\[", "\\`"])
        if k == "role":
            return r.choice([f"{{abbreviation}}`{w}`", f"{{emphasis}}`{w}`", f"{{code}}`{w}`", f"{{sub}}`{w}`", f"{{math}}`x`"])
        if k == "unknown_role":
            return f"{{nosuchrole}}`{w}`"
        if k == "subst":
            return r.choice(["{{ subkey }}", "{{ subnum }}", "{{ nosuchkey }}"])
        if k == "anchor":
            t = r.choice(self.targets) if self.targets and r.random() < 0.7 else "missing-target"
            return r.choice([f"[{w}](#{t})", f"[](#{t})", f"<project:#{t}>"])
        if k == "intlink":
            return r.choice([f"[{w}](other.md)", f"[{w}](./x/y.md#z)", "[](nofile.txt)", f"[{w}](README.md)", f"[{w}](Docs/API.md#Sec-One)", f"[{w}](<My  File.md>)", f"![{w}](Img/Pic.PNG)"])
        return w

    def text_line(self, m, n_inl=None):
        r = self.r
        n = r.randint(0, 2) if n_inl is None else n_inl
        parts = [m] + [self.inline() for _ in range(n)] + [self.words(0, 2)]
        r.shuffle(parts)
        s = " ".join(p for p in parts if p)
        return s

    # ---- blocks.  each returns a Frag whose marks have off relative to the fragment
    def para(self, depth, chain_kind="paragraph"):
        m = self.marker()
        s = self.text_line(m)
        lines = s.split("\n")
        # the marker must be on the first line so that its line is the paragraph's first line
        if m not in lines[0]:
            lines[0] = m + " " + lines[0]
        if self.r.random() < 0.25:
            lines.append("continued " + self.words(1, 2))
        lines = [l.strip() or "x" for l in lines]
        lines = [("x " + l) if l[0] in "#>-+*=|:`~<![({%$0123456789" and i > 0 else l for i, l in enumerate(lines)]
        if lines[0][0] in "#>-+*=|:`~<[({%$&\\" or lines[0][:1].isdigit() or lines[0].startswith("!["):
            lines[0] = "p " + lines[0]
        return Frag(lines, [{"m": m, "off": 0, "kind": chain_kind, "chain": []}])

    def block(self, depth, top=False):
        r = self.r
        for _ in range(20):
            k = r.choice(self.blocks)
            if depth >= self.max_depth and k in ("bullet", "ordered", "quote", "directive", "colon_directive", "div", "deflist", "tasklist", "footdef"):
                continue
            if not top and k in ("atx", "setext") and not self.heading_in_container:
                continue
            if not top and k == "hr" and not self.hr_in_container:
                continue
            if not top and k in ("footdef",) and r.random() < 0.5:
                continue
            f = getattr(self, "b_" + k)(depth, top)
            if f is not None:
                return f
        return self.para(depth)

    def blocks_seq(self, depth, lo=1, hi=3, top=False):
        n = self.r.randint(lo, hi)
        out = []
        prev_para = False
        for _ in range(n):
            f = self.block(depth, top)
            # two adjacent lists would merge into one: keep a paragraph between them
            is_list = bool(f.lines) and (f.lines[0][:2] in ("- ", "* ", "+ ") or f.lines[0][:3] in ("1. ", "1) ", "2. ", "7. ", "0. ", "2) ", "7) ", "0) "))
            is_icode = bool(f.lines) and f.lines[0].startswith("    ")
            if out and (is_icode or (prev_para and is_list)):
                out.append(self.para(depth))
            prev_para = is_list or is_icode
            out.append(f)
        return join(out)

    def b_para(self, depth, top):
        return self.para(depth)

    def b_atx(self, depth, top):
        m = self.marker()
        lvl = self.r.randint(1, 6)
        kind = "title" if top else "rubric"
        return Frag([f"{'#' * lvl} {self.text_line(m, self.r.randint(0, 1)).replace(chr(10), ' ')}"], [{"m": m, "off": 0, "kind": kind, "chain": [], "level": lvl}])

    def b_setext(self, depth, top):
        m = self.marker()
        lvl = self.r.choice([1, 2])
        kind = "title" if top else "rubric"
        return Frag([f"{m} {self.words(0, 2)}".strip(), "===" if lvl == 1 else "---"], [{"m": m, "off": 0, "kind": kind, "chain": [], "level": lvl}])

    def _list(self, depth, markers, indent_of):
        r = self.r
        items = []
        mk = r.choice(markers)
        n = r.randint(1, 3)
        tight = r.random() < 0.5
        start = r.choice([1, 1, 2, 7, 0])
        for i in range(n):
            body = join([self.para(depth + 1)] + ([self.block(depth + 1)] if r.random() < 0.4 else []))
            bullet = mk if not mk[0].isdigit() else f"{start + i}{mk[-1]}"
            ind = " " * (len(bullet) + 1)
            items.append(wrap("list_item", body, bullet + " ", ind))
        kind = "bullet_list" if not mk[0].isdigit() else "enumerated_list"
        f = join(items, sep=0 if tight else 1)
        for m_ in f.marks:
            m_["chain"].insert(0, [kind, 0])
        return f

    def b_bullet(self, depth, top):
        return self._list(depth, ["-", "*", "+"], None)

    def b_ordered(self, depth, top):
        return self._list(depth, ["1.", "1)"], None)

    def b_tasklist(self, depth, top):
        m1, m2 = self.marker(), self.marker()
        return Frag([f"- [ ] {m1} todo", f"- [x] {m2} done"], [
            {"m": m1, "off": 0, "kind": "paragraph", "chain": [["bullet_list", 0], ["list_item", 0]]},
            {"m": m2, "off": 1, "kind": "paragraph", "chain": [["bullet_list", 0], ["list_item", 1]]}])

    def b_quote(self, depth, top):
        body = self.blocks_seq(depth + 1, 1, 2)
        return wrap("block_quote", body, "> ", "> ", blank_prefix=">")

    def b_hr(self, depth, top):
        return Frag([self.r.choice(["***", "___", "* * *"])], [])

    def b_icode(self, depth, top):
        m = self.marker()
        return Frag([f"    {m} = code()", "      more"], [{"m": m, "off": 0, "kind": "literal_block", "chain": []}])

    def b_fence(self, depth, top, lang=""):
        m = self.marker()
        n = self.r.choice([3, 3, 4])
        ch = self.r.choice("`~")
        body = [f"{m} code", "  indented <b> & *x*", ""] if self.r.random() < 0.3 else [f"{m} code"]
        return Frag([ch * n + lang] + body + [ch * n], [{"m": m, "off": 0, "kind": "literal_block", "chain": []}], tick=n)

    def b_fence_lang(self, depth, top):
        return self.b_fence(depth, top, self.r.choice(["python", "c", "unknownlang", "text", "python extra words"]))

    def b_html(self, depth, top):
        m = self.marker()
        r = self.r
        k = r.choice(["div", "comment", "pre", "pi", "decl", "custom"])
        if k == "div":
            lines = ["<div class=\"x\">", f"{m} <b>inner</b>", "</div>"]
        elif k == "comment":
            lines = [f"<!-- {m}", "comment -->"]
        elif k == "pre":
            lines = ["<pre>", f"{m}  pre", "</pre>"]
        elif k == "pi":
            lines = [f"<?php {m} ?>"]
        elif k == "decl":
            lines = [f"<!DOCTYPE {m}>"]
        else:
            lines = [f"<x-y data-a=\"1\">{m}</x-y>"]
        return Frag(lines, [{"m": m, "off": 0, "kind": "raw", "chain": []}])

    def b_table(self, depth, top):
        r = self.r
        cols = r.randint(1, 3)
        m = self.marker()
        aligns = [r.choice(["---", ":--", "--:", ":-:"]) for _ in range(cols)]
        head = [m] + [self.words(1, 1) for _ in range(cols - 1)]
        rows = []
        for _ in range(r.randint(0, 2)):
            n = cols + r.choice([0, 0, -1, 1]) if cols > 1 else cols
            rows.append("| " + " | ".join(self.inline().replace("\n", " ").replace("|", "/") for _ in range(max(1, n))) + " |")
        return Frag(["| " + " | ".join(head) + " |", "| " + " | ".join(aligns) + " |"] + rows, [{"m": m, "off": 0, "kind": "table", "chain": []}])

    def b_target(self, depth, top):
        m = self.marker()
        name = f"tgt-{m}"
        self.targets.append(name)
        p = self.para(depth)
        f = Frag([f"({name})="], [{"m": name, "off": 0, "kind": "target", "chain": []}])
        return join([f, p], sep=self.r.choice([0, 1]))

    def b_comment(self, depth, top):
        m = self.marker()
        return Frag([f"% {m} a comment"], [{"m": m, "off": 0, "kind": "comment", "chain": []}])

    def b_blockbreak(self, depth, top):
        m = self.marker()
        return Frag([f"+++ {m}"], [{"m": m, "off": 0, "kind": "comment", "chain": []}])

    def b_mathblock(self, depth, top):
        m = self.marker()
        return Frag(["$$", f"{m} = x^2", "$$"], [{"m": m, "off": 0, "kind": "math_block", "chain": []}])

    def b_deflist(self, depth, top):
        m1 = self.marker()
        body = self.para(depth + 1)
        d = wrap("definition", body, ":   ", "    ")
        for mk in d.marks:
            mk["chain"].insert(0, ["definition_list", -1])
        d.shifted(1)
        for mk in d.marks:
            mk["chain"][0][1] = 0
        return Frag([f"{m1} term"] + d.lines, [{"m": m1, "off": 0, "kind": "term", "chain": [["definition_list", 0]]}] + d.marks)

    def b_fieldlist(self, depth, top):
        m1 = self.marker()
        m2 = self.marker()
        return Frag([f":{m1}: {m2} body"], [{"m": m2, "off": 0, "kind": "paragraph", "chain": [["field_list", 0]]}])

    def b_footdef(self, depth, top):
        m = self.marker()
        if self.footlabels and self.r.random() < 0.8:
            lab = self.footlabels.pop(0)
        else:
            self.foot += 1
            lab = f"fn{self.foot}"
        return Frag([f"[^{lab}]: {m} footnote text", "    continued"], [{"m": m, "off": 0, "kind": "paragraph", "chain": [["footnote", 0]]}])

    def b_attrs_para(self, depth, top):
        p = self.para(depth)
        p.shifted(1)
        return Frag([f"{{.cls{self.n} #aid{self.n}}}"] + p.lines, p.marks)

    def b_div(self, depth, top):
        body = self.blocks_seq(depth + 1, 1, 2)
        n = max(3, body.colon + 1)
        return wrap("container", body, "", "", head=[":" * n + self.r.choice(["", " cls", "{.a #divid%d}" % self.n])], tail=[":" * n], colon=n)

    def mk_directive(self, body, name="note", colon=False, style="none", nblank=0, tailblank=0, extra=0, ch=None, named=False, kind="admonition"):
        """Deterministic directive wrapper: ``style`` none|colon|dash option block, ``nblank`` blank lines before the body."""
        head = []
        first = "{" + name + "}"
        if name == "admonition":
            first += " A title"
        if name == "container":
            first += " dirc"
        if name == "topic":
            first += " A topic title"
        if name == "class":
            first += " cls-x cls-y"  # docutils' class directive: returns its body nodes themselves (no wrapping node)
        if style.startswith("colon"):
            head += [":class: c1"] + ([":name: nm-%d-%d" % (self.n, self.r.randint(0, 99999))] if named else []) + ([":nosuchoption: 1"] if style.endswith("-bad") else [])
        elif style.startswith("dash"):
            head += ["---", "class: c2"] + (["nosuchoption: 1"] if style.endswith("-bad") else []) + ["---"]
        if style.startswith("colon") and nblank == 0 and body.lines and body.lines[0].lstrip().startswith(":"):
            nblank = 1  # otherwise the body's first line would be read as one more option line
        if style == "none" and nblank == 0 and body.lines and body.lines[0].lstrip().startswith(":") and not (colon and body.lines[0].startswith(":::")):
            nblank = 1
        head += [""] * nblank
        tail = [""] * tailblank
        content0 = (head + body.lines + [""])[0]
        first_colon = bool(colon and content0.startswith(":::"))
        if colon:
            n = max(3, body.colon + 1) + extra
            if not head and body.lines and body.lines[0].startswith(":") and style == "none":
                pass  # a colon fence whose body starts with a colon fence: the renderer itself inserts a newline
            f = wrap(kind, body, "", "", head=[":" * n + first] + head, tail=tail + [":" * n], colon=n)
        else:
            n = max(3, body.tick + 1) + extra
            ch = ch or "`"
            f = wrap(kind, body, "", "", head=[ch * n + first] + head, tail=tail + [ch * n], tick=n)
        for mk in f.marks:
            mk["chain"][0].append({"opts": style, "blank": nblank, "name": name, "colon": colon, "nhead": len(head), "first_colon": first_colon})
        return f

    def _directive(self, depth, colon):
        r = self.r
        name = r.choice(self.ADMON + ["admonition"])
        body = self.blocks_seq(depth + 1, 1, 2)
        style = r.choice(["none", "none", "colon", "dash"])
        nblank = r.choice([0, 0, 1, 2]) if style != "none" else r.choice([0, 0, 1])
        return self.mk_directive(body, name, colon, style, nblank, r.choice([0, 0, 1]), r.choice([0, 0, 1]), ch="`" if r.random() < 0.8 else "~", named=r.random() < 0.5)

    def b_directive(self, depth, top):
        return self._directive(depth, False)

    def b_colon_directive(self, depth, top):
        return self._directive(depth, True)

    def b_code_directive(self, depth, top):
        m = self.marker()
        return Frag(["```{code-block} python", ":caption: cap " + m, "", f"{m} = 1", "```"], [], tick=3)

    def b_titled_directive(self, depth, top):
        # directives with a title argument that docutils only allows where a section could stand (they consult state_machine.match_titles)
        m = self.marker()
        name = self.r.choice(["topic", "sidebar", "topic", "rubric", "epigraph", "compound", "container"])
        first = {"topic": "{topic} Topic " + m, "sidebar": "{sidebar} Side " + m, "rubric": "{rubric} Rubric " + m, "epigraph": "{epigraph}", "compound": "{compound}", "container": "{container} c-" + m}[name]
        body = [] if name == "rubric" else [f"{m} body *text*", "", "second paragraph"]
        return Frag(["```" + first] + body + ["```"], [], tick=3)

    def b_role_para(self, depth, top):
        return self.para(depth)

    def b_subst_block(self, depth, top):
        return Frag(["{{ subblock }}"], [])

    def b_unknown_directive(self, depth, top):
        m = self.marker()
        return Frag(["```{nosuchdirective} " + m, "body", "```"], [], tick=3)

    # ---- document
    def document(self, lo=2, hi=6, front_matter=None):
        body = self.blocks_seq(0, lo, hi, top=True)
        lines = list(body.lines)
        off = 0
        if front_matter is not None:
            fm = ["---"] + front_matter.rstrip("\n").split("\n") + ["---"]
            off = len(fm)
            lines = fm + lines
            body.shifted(off)
        marks = {}
        for mk in body.marks:
            marks[mk["m"]] = {"line": mk["off"] + 1, "kind": mk["kind"], "chain": [[c[0], c[1] + 1] + c[2:] for c in mk["chain"]], **({"level": mk["level"]} if "level" in mk else {})}
        return "\n".join(lines) + "\n", marks


SUBSTITUTIONS = {"subkey": "replaced *text*", "subnum": 42, "subblock": "- item a\n- item b"}


def soup_vocab():
    return [
        "# h", "## h2", "###### h6", "####### h7", "h\n===", "h\n---", "---", "***", "___", "- a", "* b", "+ c", "1. a", "1) b", "10. x", "- [ ] t", "- [x] t",
        "> q", ">", "    code", "\tcode", "```", "````", "~~~", "```python", "```{note}", "```{admonition} T", ":::{note}", ":::", "::::{tip}", "```{eval-rst}",
        "```{include} nofile.md", "```{figure} i.png", "```{image} i.png", "```{code-block} c", "```{list-table}", "```{csv-table}", "```{contents}", "```{raw} html",
        "```{math}", "```{table} T", "```{toctree}", "```{only} html", "```{versionadded} 1", "```{glossary}", "```{role} x(raw)", "```{class} c", "```{container} c",
        "```{sidebar} S", "```{topic} T", "```{rubric} R", "```{epigraph}", "```{parsed-literal}", "```{line-block}", "```{meta}", "```{replace} x", "```{unicode} 0x41",
        "```{date}", "```{target-notes}", "```{sectnum}", "```{header}", "```{footer}", "```{title} T", "```{default-role} emphasis", "```{highlight} c",
        ":class: x", ":name: n", ":width: 10px", ":nosuch: 1", ":align: bad", "---\nclass: x\n---", "key: value", "(t)=", "(t)= x", "% c", "+++", "+++ x",
        "[^a]", "[^a]: def", "[^1]: d1", "[^1]", "[^²]", "[^²]: superscript two", "[^١]: arabic-indic one", "x[^①]", "[^①]: circled", "[^½]: half", "[^-1]: neg", "[^1.5]: f", "[^01]: lead zero", "[^10]: ten",
        "<inv://[a>", "[x](inv://[a#b)", "[x](wiki://[a)", "<wiki://[::1>", "[x](http://[bad)", "<https://[::1]:99999/x>", "[x](wiki:%zz)", "[x](inv:\x00)", "[a]: http://x", "[a]: <b c> 'T'", "[a]", "[a][]", "[x][a]", "[x](#t)", "[](#t)", "[](<#a b>)", "[x](y.md)", "[x](y.md#z)",
        "<project:#t>", "<project:y.md>", "<path:f.txt>", "<inv:#x>", "[x](inv:k:d:t#n*)", "<https://a.b>", "<a@b.c>", "![a](i.png)", "![a](i.png){w=10px .c #i}", "![](<>)",
        "{name}`x`", "{abbr}`A (B)`", "{math}`x`", "{ref}`t`", "{doc}`d`", "{nosuch}`x`", "{raw}`x`", "{code}`x`", "{sub}`2`", "{}`x`", "{a b}`x`",
        "$x$", "$$x$$", "$$\nx\n$$ (lbl)", "\\begin{equation}\nx\n\\end{equation}", "\\begin{align*}a\\end{align*}", "{{ k }}", "{{ k | upper }}", "{{ 1/0 }}", "{{ env }}", "{{ x.y.z }}", "{{",
        "<div>", "</div>", "<div class=\"admonition\">", "<div class=\"admonition note\" name=\"n\"><p class=\"title\">T</p>x</div>", "<img src=\"a.png\">", "<img src>", "<img>", "<img src=\"a\" width=\"x\" alt='\"q\" # c'>",
        "<p>x", "<!-- c", "-->", "<?pi", "<![CDATA[x]]>", "<![CDAT[", "<script>x</script>", "<a href=\"x\">t</a>", "&amp; &#35; &#x1F600; &nosuch; &#0; &#xD800;",
        "| a | b |", "|---|:-:|", "| 1 | 2 | 3 |", "|", "| `|` |", "term\n: def", ": def", ":field: body", ":f:", "  :f2: b", "{.cls #id key=val}", "{#id}", "{}", "{.a", "[x]{.c}", "[x]{#i}", "`c`{.l}",
        "*a", "**a*", "_a_", "~~s~~", "`c", "``c``", "\\", "\\\n", "a  \nb", "&", "\"q\" 'q' -- --- ... (c) (tm) +-", "\x00", "\r", "\u2028", "\ufeff", "\x85", "\x0b", "\x0c", "\U0001F600", "e\u0301", "\u202e",
    ]


def soup(rng, n_lines=None):
    """Unstructured hostile input: vocabulary fragments under random container prefixes, then character mutation."""
    V = soup_vocab()
    P = ["", "", "", "> ", "- ", "  ", "    ", "1. ", "> > ", ">- ", "   ", "\t", ": ", "* - "]
    n = n_lines if n_lines is not None else rng.randint(1, 14)
    out = []
    for _ in range(n):
        frag = rng.choice(V)
        p = rng.choice(P)
        for ln in frag.split("\n"):
            out.append(p + ln)
            if p.strip() in ("-", "1.", "* -"):
                p = " " * len(p)
        if rng.random() < 0.3:
            out.append("")
    s = "\n".join(out)
    if rng.random() < 0.5:
        s = mutate(rng, s, rng.randint(1, 4))
    return s + rng.choice(["", "\n", "\n\n"])


HOSTILE = list("`:{}[]<>\\|#*_$~^!()=-+&%\"' \n\t") + ["\x00", "\r", "\x85", "\u2028", "\ufeff", "\U0001F600", "\u0301", "```", ":::", "---", "{{", "}}", "\r\n"]


def mutate(rng, s, k=1):
    for _ in range(k):
        if not s:
            return rng.choice(HOSTILE)
        i = rng.randrange(len(s))
        op = rng.randrange(5)
        if op == 0:
            j = min(len(s), i + rng.randint(1, 3))
            s = s[:i] + s[j:]
        elif op == 1:
            j = min(len(s), i + rng.randint(1, 8))
            s = s[:j] + s[i:j] + s[j:]
        elif op == 2 and i + 1 < len(s):
            s = s[:i] + s[i + 1] + s[i] + s[i + 2 :]
        elif op == 3:
            s = s[:i] + rng.choice(HOSTILE) + s[i:]
        else:
            s = s[:i] + rng.choice(HOSTILE) + s[i + 1 :]
    return s


FRONT_SOUP = [
    "a: 1", "title: T", "myst:\n  enable_extensions: [deflist]", "myst: 1", "myst: [a]", "myst:\n  nosuch: 1", "myst:\n  heading_anchors: x", "myst:\n  url_schemes: [http]",
    "myst:\n  url_schemes:\n    http: null\n    x: 'https://e/{{path}}'", "myst:\n  substitutions:\n    k: v", "substitutions:\n  k: '{{ k }}'", "substitutions: 3", "html_meta:\n  a: b", "html_meta:\n  'a=b c': d",
    "html_meta: x", "a: *x", "a: &x 1\nb: *x", "a: !!python/object:os.system x", "? [a]\n: b", "- a\n- b", "just text", "a: [", "a:\n\tb", "<<: {a: 1}", "date: 2020-01-01", "n: 1.5", "b: true", "x: ~",
    "a: {b: 2020-01-01}", "a: [2020-01-01, 12:30:00]", "a: !!binary aGVsbG8=", "a: !!set {x, y}", "a: !!timestamp 2001-12-14t21:59:43.10-05:00", "a: {b: {c: !!binary aGk=}}", "a: .inf", "a: .nan", "a: 0o17", "a: !!omap [x: 1]", "a: !!pairs [x: 1, x: 2]",
    "title: {x: 1}", "title: [a, b]", "title: 2020-01-01", "author: 5", "date: !!binary aGk=", "abstract: [1, 2]", "dedication: {a: b}",
    "author: '*me*'", "abstract: |\n  multi\n  line", "dedication: '[x](#y)'", "myst:\n  title_to_header: true\ntitle: '# T'", "myst:\n  enable_extensions: linkify", "myst:\n  fence_as_directive: [note]",
    "myst:\n  heading_slug_func: os.path.basename", "myst:\n  heading_slug_func: nosuch.mod", "myst:\n  suppress_warnings: ['myst.header']", "myst:\n  sub_delimiters: ['[', ']']", "myst:\n  sub_delimiters: 'ab'",
    "myst:\n  number_code_blocks: [python]", "myst:\n  footnote_sort: false", "myst:\n  all_links_external: true", "myst:\n  commonmark_only: true", "myst:\n  disable_syntax: [emphasis, nosuchrule]", "myst:\n  html_meta: 1",
    "myst:\n  inventories:\n    k: ['https://e', null]", "myst:\n  words_per_minute: 0", "\x00: 1", "k: \"\\ud800\"", "myst:\n  enable_extensions: [nosuch]", "myst:\n  dmath_allow_labels: 'x'",
    # keys / shapes a JSON encoder cannot take; self-referencing aliases; keys that are not strings at the top level
    "a: {2020-01-01: x}", "a: {1.5: x, ~: y, true: z}", "a: &a [*a]", "a: &a {b: *a}", "a: [&b {c: *b}]", "a: {!!binary aGk=: v}", "a: {? [1, 2] : v}", "2020-01-01: top", "1: one\n2.5: f\n~: n\ntrue: b", "? !!binary aGk=\n: v",
    "title: &t [*t]", "author: {2020-01-01: x}", "a: !!float 'x'", "a: !!int 'x'", "a: !!bool 'x'", "a: !!null 'x'", "a: !!python/tuple [1]", "a: !!seq {x: 1}", "a: !!map [x]", "a: !!str {x: 1}", "a: 1e999", "a: -.inf", "a: 0x",
    "a: 2020-13-45", "a: 99:99:99", "a: 1_000", "a: 0b2", "a: '\\x'", "a: \"\\xZZ\"", "a: \"\\u12\"", "%YAML 9.9\n---\na: 1", "%TAG ! tag:x,2000:\n---\na: !foo 1", "a: |+\n\n\n", "a: >-\n  \n", "? |\n  block key\n: v", "a:\n- b\n-\n- c",
    # keys and values at the boundary: empty, blank, very long, only punctuation, reserved docinfo names with odd values
    "'': v", "\"\": v\nb: c", "? ''\n: v", "' ': v", "'': ''", "~: ~", "a: ''", "a: ' '", "'\\n': v", "'a\\nb': v", "'*': v", "': ': v", "'#': v", "k" * 300 + ": v", "k: " + "v" * 3000, "authors: []", "author: ''", "date: ''", "title: ''", "abstract: ''",
    "dedication: ~", "version: 1.0", "revision: [1]", "status: {}", "copyright: \"\"", "address: |\n  a\n  b", "contact: <x@y.z>", "organization: '*o*'", "tocdepth: x", "orphan: x", "nocomments: 1",
    "myst:\n  substitutions:\n    2020-01-01: d\n    1: one", "myst:\n  substitutions: &s\n    k: *s", "myst:\n  html_meta:\n    1: x", "myst:\n  url_schemes:\n    1: x", "myst:\n  url_schemes: &u\n    x: *u", "myst: &m\n  substitutions: *m",
]


def random_config(rng, allow_modes=True, suppress=False):
    """A valid MdParserConfig keyword dict (linkify / gfm_only excluded: linkify-it-py is not importable here)."""
    kw = {}
    if suppress and rng.random() < 0.3:
        from myst_parser.warnings_ import MystWarnings

        tags = ["myst." + w.value for w in MystWarnings]
        kw["suppress_warnings"] = rng.choice([["myst"], ["myst.*"], tags, rng.sample(tags, rng.randint(1, 8)), rng.sample(tags, rng.randint(8, len(tags))), ["docutils", "ref.*", "misc.highlighting_failure"] + rng.sample(tags, 3)])
    kw["enable_extensions"] = sorted(e for e in ALL_EXT if rng.random() < 0.5)
    if rng.random() < 0.15:
        kw["enable_extensions"] = list(ALL_EXT)
    if allow_modes and rng.random() < 0.08:
        kw["commonmark_only"] = True
    if rng.random() < 0.5:
        kw["heading_anchors"] = rng.randint(0, 7)
    if rng.random() < 0.3:
        kw["footnote_sort"] = rng.random() < 0.5
    if rng.random() < 0.3:
        kw["footnote_transition"] = rng.random() < 0.5
    if rng.random() < 0.2:
        kw["all_links_external"] = True
    if rng.random() < 0.2:
        kw["url_schemes"] = rng.choice([["http"], {"http": None, "wiki": "https://w/{{path}}?{{query}}#{{fragment}}", "x": "https://e/{{path}}#{{fragment}}"}, {"gh": {"url": "https://g/{{path}}", "title": "{{path}}", "classes": ["c"]}}, ("https", "mailto")])
    if rng.random() < 0.4:
        kw["substitutions"] = dict(SUBSTITUTIONS)
    if rng.random() < 0.15:
        kw["fence_as_directive"] = ["note", "python"]
    if rng.random() < 0.15:
        kw["number_code_blocks"] = ["python"]
    if rng.random() < 0.15:
        kw["title_to_header"] = True
    if rng.random() < 0.1:
        kw["highlight_code_blocks"] = False
    if rng.random() < 0.1:
        kw["links_external_new_tab"] = True
    if rng.random() < 0.1:
        kw["dmath_double_inline"] = True
    if rng.random() < 0.1:
        kw["disable_syntax"] = rng.choice([["emphasis"], ["table"], ["link", "image"], ["myst_role"], ["heading", "lheading"]])
    if rng.random() < 0.1:
        kw["html_meta"] = {"description lang=en": "d", "keywords": "a, b"}
    if rng.random() < 0.1:
        kw["enable_checkboxes"] = True
    if rng.random() < 0.1:
        kw["sub_delimiters"] = ("[", "]")
    return kw


def cfg_to_overrides(kw):
    """MdParserConfig kwargs -> docutils settings_overrides (myst_ prefixed; passed as Python values)."""
    return {"myst_" + k: v for k, v in kw.items()}
