"""Two independent canonicalisers into one small algebra (C02): T walks the markdown-it syntax tree, D walks the doctree.

Algebra (JSON-able lists):  block  = ["p", inl] | ["h", inl] | ["quote", blocks] | ["ul", bullet, items] | ["ol", suffix, start, items]
                                    | ["li", blocks] | ["pre", lang, text] | ["hr"] | ["html", text] | ["table", rows] | ["mathblock", text, label]
                                    | ["amsmath", text] | ["target", name] | ["comment", text] | ["break", text] | ["dl", entries] | ["fl", fields]
                                    | ["fndef", label, blocks] | ["div", blocks] | ["?", type]
                            inline = ["t", text] | ["br"] | ["em", inl] | ["strong", inl] | ["s<"] | ["s>"] | ["code", text] | ["a", dest, title, inl]
                                    | ["img", src, title, alt] | ["htmli", text] | ["math", text] | ["mathblock", text, label] | ["span", inl] | ["fnref", label] | ["?", type]
"""

from __future__ import annotations

import html
from urllib.parse import unquote

from docutils import nodes


def _merge(inl):
    out = []
    for x in inl:
        if x[0] == "t" and out and out[-1][0] == "t":
            out[-1] = ["t", out[-1][1] + x[1]]
        elif x[0] == "t" and x[1] == "":
            continue
        else:
            out.append(x)
    return out


def dest(x):
    return unquote(html.unescape(x or ""))


# ------------------------------------------------------------------------------------------------ token side


class T:
    def __init__(self, md):
        self.md = md  # parser for nested (div) content
        self.unknown = []

    def blocks(self, node):
        out = []
        for ch in node.children or []:
            b = self.block(ch)
            if b is not None:
                out.append(b)
        return out

    def inl(self, node):
        """node: a block node whose (single) child is 'inline', or an inline container."""
        out = []
        for ch in node.children or []:
            if ch.type == "inline":
                out.extend(self.inl(ch))
            else:
                out.extend(self.inline(ch))
        return _merge(out)

    def block(self, n):
        t = n.type
        if t == "paragraph":
            return ["p", self.inl(n)]
        if t == "heading":
            return ["h", self.inl(n)]
        if t == "blockquote":
            return ["quote", self.blocks(n)]
        if t == "bullet_list":
            return ["ul", n.markup, self.blocks(n)]
        if t == "ordered_list":
            style = {"decimal": "arabic", "lower-alpha": "loweralpha", "upper-alpha": "upperalpha", "lower-roman": "lowerroman", "upper-roman": "upperroman"}.get(str(n.attrs.get("style")), "arabic")
            return ["ol", n.markup, n.attrs.get("start"), style, self.blocks(n)]
        if t == "list_item":
            return ["li", self.blocks(n)]
        if t == "code_block":
            return ["pre", None, n.content]
        if t == "fence":
            info = n.info.strip() if n.info else ""
            return ["pre", info.split()[0] if info else None, n.content]
        if t == "hr":
            return ["hr"]
        if t == "html_block":
            return ["html", n.content]
        if t == "table":
            rows = []
            for sec in n.children or []:
                for tr in sec.children or []:
                    cells = []
                    for c in tr.children or []:
                        st = c.attrGet("style")
                        al = st.split(":")[1] if st and st.startswith("text-align:") else None
                        cells.append([al, self.inl(c)])
                    rows.append(cells)
            return ["table", rows]
        if t == "math_block":
            return ["mathblock", n.content, None]
        if t == "math_block_label":
            return ["mathblock", n.content, n.info]
        if t == "amsmath":
            return ["amsmath", n.content]
        if t == "myst_target":
            return ["target", n.content]
        if t == "myst_line_comment":
            return ["comment", n.content.strip()]
        if t == "myst_block_break":
            return ["break", n.content]
        if t == "dl":
            ents = []
            for c in n.children or []:
                if c.type == "dt":
                    ents.append(["dt", self.inl(c)])
                elif c.type == "dd":
                    ents.append(["dd", self.blocks(c)])
            return ["dl", ents]
        if t == "field_list":
            fields = []
            kids = list(n.children or [])
            i = 0
            while i < len(kids):
                if kids[i].type == "fieldlist_name":
                    name = self.inl(kids[i])
                    body = []
                    if i + 1 < len(kids) and kids[i + 1].type == "fieldlist_body":
                        body = self.blocks(kids[i + 1])
                        i += 1
                    fields.append([name, body])
                i += 1
            return ["fl", fields]
        if t == "footnote_reference":
            return ["fndef", n.meta.get("label"), self.blocks(n)]
        if t == "colon_fence":
            from markdown_it.tree import SyntaxTreeNode

            toks = self.md.parse(n.content + "\n", {})
            return ["div", self.blocks(SyntaxTreeNode(toks))]
        if t == "front_matter":
            return None
        self.unknown.append(t)
        return ["?", t]

    def inline(self, n):
        t = n.type
        if t == "text":
            return [["t", n.content]]
        if t == "softbreak":
            return [["t", "\n"]]
        if t == "hardbreak":
            return [["br"]]
        if t == "em":
            return [["em", self.inl(n)]]
        if t == "strong":
            return [["strong", self.inl(n)]]
        if t == "s":
            return [["s<"]] + self.inl(n) + [["s>"]]
        if t == "code_inline":
            return [["code", n.content]]
        if t == "link":
            return [["a", dest(n.attrGet("href")), n.attrGet("title"), self.inl(n)]]
        if t == "image":
            return [["img", n.attrGet("src") or "", n.attrGet("title"), self._alt(n)]]
        if t == "html_inline":
            return [["htmli", n.content]]
        if t in ("math_inline", "math_single"):
            return [["math", n.content]]
        if t == "math_inline_double":
            return [["mathblock", n.content, None]]
        if t == "span":
            return [["span", self.inl(n)]]
        if t == "footnote_ref":
            return [["fnref", n.meta.get("label")]]
        self.unknown.append(t)
        return [["?", t]]

    def _alt(self, n):
        s = ""
        for c in n.children or []:
            s += c.content if c.type == "text" else self._alt(c)
        return s


# ------------------------------------------------------------------------------------------------ doctree side


class D:
    def __init__(self):
        self.unknown = []

    def blocks(self, node):
        out = []
        for ch in node.children:
            out.extend(self.block(ch))
        return out

    def inl(self, node):
        out = []
        kids = list(node.children)
        i = 0
        while i < len(kids):
            ch = kids[i]
            # hard break = html raw + latex raw pair
            if isinstance(ch, nodes.raw) and ch.get("format") == "html" and ch.astext() == "<br />\n" and i + 1 < len(kids) and isinstance(kids[i + 1], nodes.raw) and kids[i + 1].get("format") == "latex":
                out.append(["br"])
                i += 2
                continue
            out.extend(self.inline(ch))
            i += 1
        return _merge(out)

    def block(self, n):
        if isinstance(n, nodes.system_message):
            return []
        if isinstance(n, nodes.section):
            out = []
            for ch in n.children:
                if isinstance(ch, nodes.title):
                    out.append(["h", self.inl(ch)])
                else:
                    out.extend(self.block(ch))
            return out
        if isinstance(n, nodes.rubric):
            return [["h", self.inl(n)]]
        if isinstance(n, nodes.paragraph):
            return [["p", self.inl(n)]]
        if isinstance(n, nodes.block_quote):
            return [["quote", self.blocks(n)]]
        if isinstance(n, nodes.bullet_list):
            return [["ul", n.get("bullet"), self.blocks(n)]]
        if isinstance(n, nodes.enumerated_list):
            return [["ol", n.get("suffix"), n.get("start"), n.get("enumtype"), self.blocks(n)]]
        if isinstance(n, nodes.list_item):
            return [["li", self.blocks(n)]]
        if isinstance(n, nodes.literal_block):
            cl = [c for c in n.get("classes", []) if c != "code"]
            lang = n.get("language")
            if lang is None:
                lang = cl[0] if cl else None
            elif lang in ("none", "default") and "language" in n.attributes and not cl:
                lang = None  # Sphinx: no language given ("none") / the project's highlight_language ("default")
            return [["pre", lang, n.astext()]]
        if isinstance(n, nodes.transition):
            return [["hr"]]
        if isinstance(n, nodes.raw):
            return [["html", n.astext()]] if n.get("format") == "html" else [["?", "raw:" + str(n.get("format"))]]
        if isinstance(n, nodes.table):
            rows = []
            for row in n.findall(nodes.row):
                cells = []
                for e in row.children:
                    al = None
                    for c in e.get("classes", []):
                        if c.startswith("text-"):
                            al = c[5:]
                    para = e[0] if len(e) and isinstance(e[0], nodes.paragraph) else e
                    cells.append([al, self.inl(para)])
                rows.append(cells)
            return [["table", rows]]
        if isinstance(n, nodes.math_block):
            if "amsmath" in n.get("classes", []):
                return [["amsmath", n.astext()]]
            lab = n.get("label")
            if lab is None and n.get("names"):
                lab = n["names"][0]
            if lab is None and n.get("dupnames"):
                lab = n["dupnames"][0]  # a label used twice: docutils moves the name to 'dupnames' (and reports it)
            return [["mathblock", n.astext(), lab]]
        if isinstance(n, nodes.target):
            if n.get("ids") and str(n["ids"][0]).startswith("equation-"):
                return []  # Sphinx math target preceding a labelled equation
            return [["target", n.rawsource]]
        if isinstance(n, nodes.comment):
            if "block_break" in n.get("classes", []):
                return [["break", n.astext()]]
            return [["comment", n.astext()]]
        if isinstance(n, nodes.definition_list):
            ents = []
            for item in n.children:
                for c in item.children:
                    if isinstance(c, nodes.term):
                        ents.append(["dt", self.inl(c)])
                    elif isinstance(c, nodes.definition):
                        ents.append(["dd", self.blocks(c)])
            return [["dl", ents]]
        if isinstance(n, nodes.field_list):
            fields = []
            for f in n.children:
                if isinstance(f, nodes.field):
                    fields.append([self.inl(f[0]), self.blocks(f[1]) if len(f) > 1 else []])
            return [["fl", fields]]
        if isinstance(n, nodes.footnote):
            return [["fndef", (n.get("names") or [None])[0], [b for ch in n.children if not isinstance(ch, nodes.label) for b in self.block(ch)]]]
        if isinstance(n, nodes.container) and n.get("is_div"):
            return [["div", self.blocks(n)]]
        if isinstance(n, nodes.substitution_definition):
            return []
        if isinstance(n, nodes.pending):
            return []
        self.unknown.append(n.tagname)
        return [["?", n.tagname]]

    def inline(self, n):
        if isinstance(n, nodes.Text):
            return [["t", str(n)]]
        if isinstance(n, nodes.system_message):
            return []
        if isinstance(n, nodes.emphasis):
            return [["em", self.inl(n)]]
        if isinstance(n, nodes.strong):
            return [["strong", self.inl(n)]]
        if isinstance(n, nodes.literal):
            return [["code", n.astext()]]
        if isinstance(n, nodes.raw):
            if n.get("format") == "html":
                tx = n.astext()
                if tx == "<s>":
                    return [["s<"]]
                if tx == "</s>":
                    return [["s>"]]
                return [["htmli", tx]]
            return [["?", "raw:" + str(n.get("format"))]]
        if isinstance(n, nodes.reference):
            d = n.get("refuri")
            if d is None:
                d = n.get("refname")
            return [["a", dest(d), n.get("reftitle"), self.inl(n)]]
        if n.tagname == "pending_xref" or n.tagname == "download_reference":
            inner = n[0] if len(n) == 1 and isinstance(n[0], (nodes.inline, nodes.literal)) else n
            kids = self.inl(inner) if isinstance(inner, nodes.inline) or inner is n else []
            return [["a", dest(n.get("reftarget")), n.get("title"), kids]]
        if isinstance(n, nodes.image):
            return [["img", n.get("uri", ""), n.get("title"), n.get("alt", "")]]
        if isinstance(n, nodes.math):
            return [["math", n.astext()]]
        if isinstance(n, nodes.math_block):
            return [["mathblock", n.astext(), None]]
        if isinstance(n, nodes.footnote_reference):
            return [["fnref", n.get("refname")]]
        if isinstance(n, nodes.inline):
            return [["span", self.inl(n)]]
        if isinstance(n, nodes.target):
            return []
        self.unknown.append(n.tagname)
        return [["?", n.tagname]]


def first_diff(a, b, path="$"):
    """Path and the two sub-terms at the first difference of two canonical forms."""
    if type(a) is not type(b):
        return path, a, b
    if isinstance(a, list):
        if a and b and isinstance(a[0], str) and isinstance(b[0], str) and a[0] != b[0]:
            return path, a, b
        for i, (x, y) in enumerate(zip(a, b)):
            r = first_diff(x, y, f"{path}[{i}]")
            if r:
                return r
        if len(a) != len(b):
            return f"{path}[{min(len(a), len(b))}]", a[len(b):][:1], b[len(a):][:1]
        return None
    return None if a == b else (path, a, b)
