"""Monitors attached from the harness (no hooks in the repository).

* Reach       - sys.monitoring PY_START reach counters / logical step budget over myst_parser code objects
* WarnLog     - every create_warning decision, via the module-level _is_suppressed_warning lookup
* AuditLog    - sys.addaudithook file/socket events under sentinel prefixes
* ConfigSnap  - global-config snapshot contract around Parser.parse / MystParser.parse
"""

from __future__ import annotations

import collections
import os
import sys

from .core import PKG, StepBudgetExceeded

_mon = sys.monitoring


class Reach:
    """PY_START counters for every function of myst_parser/* that the workload enters."""

    TOOL = 4

    def __init__(self, cap: int | None = 2000, prefix: str = PKG):
        self.counts: collections.Counter = collections.Counter()
        self.cap = cap
        self.prefix = prefix
        self.steps = 0
        self.budget: int | None = None
        self.max_steps_seen = 0
        self.active = False

    def _cb(self, code, offset):
        fn = code.co_filename
        if not fn.startswith(self.prefix):
            return _mon.DISABLE
        name = f"{os.path.basename(fn)[:-3]}.{code.co_qualname}"
        c = self.counts[name] = self.counts[name] + 1
        self.steps += 1
        if self.budget is not None and self.steps > self.budget:
            self.budget = None  # fire once
            raise StepBudgetExceeded(f"more than {self.steps - 1} myst_parser function entries")
        if self.cap is not None and c >= self.cap:
            return _mon.DISABLE
        return None

    def start(self):
        _mon.use_tool_id(self.TOOL, "mv-reach")
        _mon.register_callback(self.TOOL, _mon.events.PY_START, self._cb)
        _mon.set_events(self.TOOL, _mon.events.PY_START)
        self.active = True
        return self

    def stop(self):
        if self.active:
            _mon.set_events(self.TOOL, 0)
            _mon.register_callback(self.TOOL, _mon.events.PY_START, None)
            _mon.free_tool_id(self.TOOL)
            self.active = False

    def begin_case(self, budget: int | None):
        self.steps = 0
        self.budget = budget

    def end_case(self) -> int:
        self.budget = None
        self.max_steps_seen = max(self.max_steps_seen, self.steps)
        return self.steps

    def reached(self, *suffixes) -> dict:
        """Call counts of functions whose 'module.qualname' ends with each suffix."""
        out = {}
        for s in suffixes:
            out[s] = sum(v for k, v in self.counts.items() if k.endswith(s))
        return out


class WarnLog:
    """Observe every MyST warning decision (tag, suppressed?, call site)."""

    def __init__(self):
        self.events: list[tuple] = []
        self._orig = None

    def start(self):
        import myst_parser.warnings_ as W

        self._W = W
        self._orig = W._is_suppressed_warning
        orig = self._orig
        events = self.events

        def spy(type, subtype, suppress_warnings):
            r = orig(type, subtype, suppress_warnings)
            try:
                f = sys._getframe(2)
                # skip the renderer's thin wrapper so the site is the real caller
                if f.f_code.co_name == "create_warning" and f.f_back is not None:
                    f = f.f_back
                site = f"{os.path.relpath(f.f_code.co_filename, PKG)}:{f.f_code.co_name}"
            except Exception:
                site = "?"
            events.append((type, subtype, bool(r), site))
            return r

        W._is_suppressed_warning = spy
        return self

    def stop(self):
        if self._orig is not None:
            self._W._is_suppressed_warning = self._orig
            self._orig = None

    def clear(self):
        self.events.clear()


def run_with_global_step_budget(fn, budget):
    """Run fn() while counting the function entries of ALL Python code (dependencies included); -> ("returned", steps) /
    ("exceeded", steps) / ("raised:<type>", steps).  Used only to decide, in logical steps, a case that a wall-clock alarm found suspicious."""
    tool = 5
    state = {"n": 0}

    def cb(code, offset):
        state["n"] += 1
        if state["n"] > budget:
            raise StepBudgetExceeded(f"more than {budget} function entries (all code)")

    _mon.use_tool_id(tool, "mv-global-steps")
    _mon.register_callback(tool, _mon.events.PY_START, cb)
    _mon.set_events(tool, _mon.events.PY_START)
    try:
        try:
            fn()
            return "returned", state["n"]
        except StepBudgetExceeded:
            return "exceeded", state["n"]
        except BaseException as e:  # noqa: BLE001
            return "raised:" + type(e).__name__, state["n"]
    finally:
        _mon.set_events(tool, 0)
        _mon.register_callback(tool, _mon.events.PY_START, None)
        _mon.free_tool_id(tool)


class AuditLog:
    """File / socket audit events whose first argument mentions a sentinel substring."""

    _installed = False
    _sinks: list = []

    def __init__(self, needle: str):
        self.needle = needle
        self.events: list[tuple] = []
        self.enabled = True
        AuditLog._sinks.append(self)
        if not AuditLog._installed:
            sys.addaudithook(AuditLog._hook)
            AuditLog._installed = True

    @staticmethod
    def _hook(event, args):
        if event not in ("open", "os.scandir", "os.listdir", "socket.connect", "urllib.Request"):
            return
        try:
            a0 = args[0] if event != "socket.connect" else args[1]
            if isinstance(a0, bytes):
                a0 = a0.decode("utf8", "replace")
            a0 = str(a0)
        except Exception:
            return
        for s in AuditLog._sinks:
            if s.enabled and s.needle in a0:
                s.events.append((event, a0))

    def clear(self):
        self.events.clear()


def start_reach(ctx, cap=2000):
    """Attach PY_START reach counters for the whole shard (low overhead: a code object is disabled after ``cap`` hits)."""
    ctx._reach = Reach(cap=cap).start()
    return ctx._reach


def finish_reach(ctx, anchors):
    """Record 'reach:<anchor>' counters (function entries observed, capped) for the listed anchor suffixes."""
    r = getattr(ctx, "_reach", None)
    if r is None:
        return
    r.stop()
    for a, n in r.reached(*anchors).items():
        ctx.count("reach:" + a, n)
    ctx.count("reach:functions_entered", len(r.counts))


def require_reach(m, anchors, lo=1):
    """finalize helper: zero reach of a deciding anchor function => inconclusive."""
    for a in anchors:
        if m["counters"].get("reach:" + a, 0) < lo:
            m["inconclusive"].append(f"anchor function {a} was entered {m['counters'].get('reach:' + a, 0)} times (< {lo})")
