"""Shard entry point: ``python -m mv.shard PROP TIER SEED INDEX NSHARDS OUT`` or ``PROP --replay PATH``."""

from __future__ import annotations

import faulthandler
import importlib
import json
import os
import sys

from . import core


def main(argv):
    prop = argv[0].upper()
    mod = importlib.import_module(f"mv.checks.{prop.lower()}")
    core.assert_tree()
    if argv[1] == "--replay":
        with open(argv[2], encoding="utf8") as f:
            w = json.load(f)
        ctx = core.Ctx(prop, w.get("tier", "quick"), w.get("seed", 0), 0, 1, 3600)
        ctx.replaying = True
        if hasattr(mod, "setup"):
            mod.setup(ctx)
        mod.eval_case(ctx, w["case"])
        if hasattr(mod, "teardown"):
            mod.teardown(ctx)
        if ctx.violations:
            for k, v in ctx.violations.items():
                print(f"REPLAY property={prop} key={k}: {v['what']}")
                print(json.dumps(v["detail"], indent=1, ensure_ascii=False)[:4000])
            return 1
        print(f"REPLAY property={prop}: case no longer violates")
        return 0

    tier, seed, idx, n, out = argv[1], int(argv[2]), int(argv[3]), int(argv[4]), argv[5]
    budget = getattr(mod, "BUDGET_S", {"quick": 45, "thorough": 600})[tier]
    if os.environ.get("VERIF_BUDGET_S"):  # exploration aid: cap the per-shard workload budget (the registered commands never set it)
        budget = min(budget, float(os.environ["VERIF_BUDGET_S"]))
    # separate, generous wall-clock watchdog: dumps stacks; the parent turns a kill into "inconclusive"
    faulthandler.enable()
    ctx = core.Ctx(prop, tier, seed, idx, n, budget)
    if hasattr(mod, "setup"):
        mod.setup(ctx)
    try:
        mod.run_shard(ctx)
    finally:
        if hasattr(mod, "teardown"):
            mod.teardown(ctx)
    tmp = out + ".tmp"
    with open(tmp, "w", encoding="utf8", errors="backslashreplace") as f:
        json.dump(ctx.result(), f, ensure_ascii=False)
    os.replace(tmp, out)
    return 0


if __name__ == "__main__":
    sys.exit(main(sys.argv[1:]))
