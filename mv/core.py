"""Shared layer: shard context, verdict bookkeeping, hashing, paths.

Every check module ``mv.checks.cNN`` exposes

    PROP      = "CNN"
    RULE      = "<how cases are generated and what makes one distinct / non-trivial>"
    ASSUME    = [ "...", ... ]
    SHARDS    = {"quick": n, "thorough": m}          (optional, default 16/16)
    BUDGET_S  = {"quick": s, "thorough": t}          (soft per-shard workload budget, seconds)
    def run_shard(ctx):  ...                         (drives the workload, calls ctx.case / ctx.violation)
    def eval_case(ctx, case): ...                    (evaluates ONE case dict; used by run_shard, replay, ddmin)
    def finalize(merged): ...                        (optional; cross-shard reach / coverage thresholds)

A *case* is a JSON-serialisable dict with at least ``{"kind": ...}``.
"""

from __future__ import annotations

import collections
import hashlib
import json
import os
import random
import sys
import time
import traceback

VERIF = os.path.dirname(os.path.dirname(os.path.abspath(__file__)))
REPO = os.path.abspath(os.environ.get("VERIF_REPO", "/repo"))
PKG = os.path.join(REPO, "myst_parser")


def assert_tree() -> str:
    """Every check starts by asserting that the code under test is the intended tree."""
    import myst_parser

    path = os.path.abspath(myst_parser.__file__)
    if not path.startswith(PKG + os.sep):
        raise SystemExit(
            f"INCONCLUSIVE reason=myst_parser imported from {path}, expected under {PKG}"
        )
    return path


def h64(obj) -> int:
    if not isinstance(obj, (str, bytes)):
        obj = repr(obj)
    if isinstance(obj, str):
        obj = obj.encode("utf8", "surrogatepass")
    return int.from_bytes(hashlib.blake2b(obj, digest_size=8).digest(), "big")


def jsonable(x, depth=0):
    """Best-effort conversion of witnesses to JSON."""
    if depth > 8:
        return repr(x)
    if x is None or isinstance(x, (bool, int, float, str)):
        return x
    if isinstance(x, bytes):
        return {"__bytes__": x.hex()}
    if isinstance(x, dict):
        return {str(k): jsonable(v, depth + 1) for k, v in x.items()}
    if isinstance(x, (list, tuple)):
        return [jsonable(v, depth + 1) for v in x]
    if isinstance(x, (set, frozenset)):
        return sorted((jsonable(v, depth + 1) for v in x), key=repr)
    return repr(x)


def unjson_bytes(x):
    if isinstance(x, dict) and set(x) == {"__bytes__"}:
        return bytes.fromhex(x["__bytes__"])
    return x


class StepBudgetExceeded(BaseException):
    """Raised by a monitor into the monitored code when a logical step budget is exhausted."""


class WallClockSuspicion(BaseException):
    """Raised by a generous per-case alarm: never a verdict by itself, only the reason to re-run the case under a logical budget over ALL code."""


class Ctx:
    """Per-shard context: counters the evidence is assembled from."""

    MAX_SAMPLES = 4

    def __init__(self, prop, tier, seed, shard, nshards, budget_s):
        self.prop, self.tier, self.seed = prop, tier, seed
        self.shard, self.nshards = shard, nshards
        self.rng = random.Random(f"{prop}/{seed}/{shard}")
        self.t0 = time.monotonic()
        self.budget_s = budget_s
        self.evaluations = 0
        self.distinct: set[int] = set()
        self.distinct_by_construction = 0
        self.counters: collections.Counter = collections.Counter()
        self.samples: list = []
        self.violations: dict[str, dict] = {}
        self.inconclusive: list[str] = []
        self.subruns: dict[str, dict] = {}
        self.notes: dict = {}
        self.replaying = False

    # --- workload accounting
    def case(self, key=None, nontrivial=True, n=1):
        """Count ``n`` executions of the real code; ``key`` identifies the case for distinctness."""
        self.evaluations += n
        if nontrivial and key is not None:
            self.distinct.add(h64(key))

    def enumerated(self, n_distinct_nontrivial):
        """Cases distinct by construction (exhaustive enumeration partitioned over shards)."""
        self.distinct_by_construction += n_distinct_nontrivial

    def count(self, name, n=1):
        self.counters[name] += n

    def sample(self, obj):
        if len(self.samples) < self.MAX_SAMPLES:
            self.samples.append(jsonable(obj))

    def subrun(self, name, **info):
        d = self.subruns.setdefault(name, {})
        for k, v in info.items():
            if isinstance(v, (int, float)) and not isinstance(v, bool) and k in d:
                d[k] += v
            else:
                d[k] = v

    def time_left(self) -> float:
        return self.budget_s - (time.monotonic() - self.t0)

    def out_of_time(self) -> bool:
        return self.time_left() <= 0

    # --- verdicts
    def violation(self, key: str, what: str, case, detail=None):
        """Record a violation under a *mechanism key* (never a case hash)."""
        v = self.violations.get(key)
        size = len(json.dumps(jsonable(case), ensure_ascii=False))
        if v is None:
            self.violations[key] = {
                "key": key,
                "what": what,
                "count": 1,
                "case": jsonable(case),
                "detail": jsonable(detail),
                "size": size,
                "shard": self.shard,
            }
        else:
            v["count"] += 1
            if size < v["size"]:
                v.update(
                    what=what, case=jsonable(case), detail=jsonable(detail), size=size
                )

    def note_inconclusive(self, reason: str):
        if reason not in self.inconclusive:
            self.inconclusive.append(reason)

    def result(self) -> dict:
        return {
            "shard": self.shard,
            "evaluations": self.evaluations,
            "distinct": sorted(self.distinct),
            "distinct_by_construction": self.distinct_by_construction,
            "counters": dict(self.counters),
            "samples": self.samples,
            "violations": self.violations,
            "inconclusive": self.inconclusive,
            "subruns": self.subruns,
            "notes": jsonable(self.notes),
            "wall_s": round(time.monotonic() - self.t0, 3),
        }


def exc_signature(exc: BaseException) -> dict:
    """(type, innermost frame, innermost myst_parser frame) of an exception."""
    tb = traceback.extract_tb(exc.__traceback__)
    inner = tb[-1] if tb else None
    myst = [f for f in tb if "/myst_parser/" in f.filename]
    return {
        "type": type(exc).__name__,
        "msg": str(exc)[:300],
        "inner": f"{os.path.basename(inner.filename)}:{inner.name}" if inner else None,
        "caller": f"{os.path.basename(tb[-2].filename)}:{tb[-2].name}" if len(tb) > 1 else None,
        "myst": f"{os.path.basename(myst[-1].filename)}:{myst[-1].name}"
        if myst
        else None,
        "tb": "".join(traceback.format_exception(exc))[-3000:],
    }


def ddmin(seq, test, max_calls=200):
    """Delta-debugging minimisation of a list under ``test(list) -> bool`` (True = still fails)."""
    calls = 0
    n = 2
    seq = list(seq)
    while len(seq) >= 2 and calls < max_calls:
        chunk = max(1, len(seq) // n)
        reduced = False
        for i in range(0, len(seq), chunk):
            cand = seq[:i] + seq[i + chunk :]
            calls += 1
            ok = False
            try:
                ok = bool(cand) and test(cand)
            except Exception:
                ok = False
            if ok:
                seq = cand
                n = max(n - 1, 2)
                reduced = True
                break
            if calls >= max_calls:
                break
        if not reduced:
            if chunk == 1:
                break
            n = min(len(seq), n * 2)
    return seq
