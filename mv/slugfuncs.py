"""Custom heading-slug functions used by the C10 workload (loaded by dotted path and passed as callables)."""


def shout(title: str) -> str:
    return "S-" + title.upper().replace(" ", "_")


def constant(title: str) -> str:
    return "same"


def boom(title: str) -> str:
    raise ValueError("slug function failed on purpose")


def boom_some(title: str) -> str:
    if "x" in title:
        raise KeyError("no x allowed")
    return "ok-" + title
