"""pytest plugin: run the repository's own test suite with the monitors attached (observing only).

Loaded with ``-p mv.pytest_monitor`` (PYTHONPATH=/repo:/verif).  Every doctree the suite builds through the docutils
or the Sphinx parser is checked with the C03 tree invariants directly after parsing; every warning decision is logged
for the C14 catalogue; the global configuration is snapshotted around every Sphinx parse (C13 f).  Results are written
as JSON to $MV_MONITOR_OUT at session end.  Nothing is asserted inside the tests: a finding never changes a test result.
"""

from __future__ import annotations

import collections
import json
import os

STATE = {"trees": 0, "viol": collections.Counter(), "witness": {}, "tags": collections.Counter(), "sites": collections.Counter(), "snap_checks": 0, "snap_viol": 0, "tests": 0}


def pytest_configure(config):
    from docutils import nodes

    import myst_parser.warnings_ as W
    from myst_parser.parsers import docutils_ as D
    from myst_parser.parsers import sphinx_ as S

    from . import oracle

    def wrap(cls, is_sphinx):
        orig = cls.parse

        def parse(self, inputstring, document):
            snap = None
            if is_sphinx:
                try:
                    snap = repr(sorted(document.settings.env.myst_config.as_dict().items(), key=lambda kv: kv[0]))
                except Exception:  # noqa: BLE001
                    snap = None
            r = orig(self, inputstring, document)
            try:
                STATE["trees"] += 1
                for key, what, *ns in oracle.check_tree(document, "parsed"):
                    STATE["viol"][key] += 1
                    STATE["witness"].setdefault(key, {"what": what, "text": str(inputstring)[:400]})
                if snap is not None:
                    STATE["snap_checks"] += 1
                    after = repr(sorted(document.settings.env.myst_config.as_dict().items(), key=lambda kv: kv[0]))
                    if after != snap:
                        STATE["snap_viol"] += 1
                        STATE["witness"].setdefault("snapshot", {"before": snap[:600], "after": after[:600], "text": str(inputstring)[:300]})
            except Exception as e:  # noqa: BLE001
                STATE["viol"]["monitor-error:" + type(e).__name__] += 1
            return r

        cls.parse = parse

    wrap(D.Parser, False)
    wrap(S.MystParser, True)
    orig_sup = W._is_suppressed_warning

    def spy(type, subtype, suppress_warnings):
        STATE["tags"][f"{type}.{subtype}"] += 1
        return orig_sup(type, subtype, suppress_warnings)

    W._is_suppressed_warning = spy


def pytest_runtest_logreport(report):
    if report.when == "call":
        STATE["tests"] += 1


def pytest_sessionfinish(session, exitstatus):
    out = os.environ.get("MV_MONITOR_OUT")
    if out:
        with open(out, "w", encoding="utf8") as f:
            json.dump({"trees": STATE["trees"], "violations": dict(STATE["viol"]), "witness": STATE["witness"], "tags": dict(STATE["tags"]), "snapshot_checks": STATE["snap_checks"], "snapshot_violations": STATE["snap_viol"], "tests": STATE["tests"]}, f)
