"""Shared oracles over doctrees: well-formedness invariants (C03) used as a monitor by several checks."""

from __future__ import annotations

from docutils import nodes


# scratch containers that a directive's nested parse was given (filled by a hook of the C03 check on MockState.nested_parse, observing only);
# None = no hook installed (the repository-suite monitor): every bare Element root counts as such a container
SCRATCH = None


def _dangling_key(reg):
    """Mechanism key for 'registered in document.ids but not part of the tree': WHO threw the node away."""
    from docutils import nodes

    x = reg
    while x.parent is not None and any(c is x for c in x.parent.children):
        x = x.parent
    # x is the top of the detached piece: a true root, or a node that its (stale) parent no longer lists
    if x.parent is None and ((type(x) is nodes.Element and (SCRATCH is None or any(x is c for c in SCRATCH))) or isinstance(x, nodes.title)):
        # a directive nested-parsed its content into a scratch container and then rejected it (docutils' own tables do this)
        return "dangling:registered-node-not-in-tree:nested-parse-result-discarded"
    if x.parent is not None and isinstance(x, (nodes.topic, nodes.pending)) and ("contents" in x.get("classes", []) or isinstance(x, nodes.pending)):
        return "dangling:registered-node-not-in-tree:contents-removed-by-docutils-transform"
    if x.parent is not None and isinstance(x, nodes.field_list) and isinstance(x.parent, nodes.document) and any(isinstance(c, nodes.docinfo) for c in x.parent.children):
        # docutils' DocInfo transform turned the leading field list into <docinfo> and dropped the list node (with the target propagated onto it)
        return "dangling:registered-node-not-in-tree:field-list-replaced-by-docinfo-transform"
    return f"dangling:registered-node-not-in-tree:{reg.tagname}:detached-{x.tagname}" + ("" if x.parent is None else ":removed-from-" + x.parent.tagname)


def check_tree(doc, stage):
    """Invariants of C03 on one document.  stage: 'parsed' (directly after Parser.parse) | 'transformed'.

    Returns a list of (mechanism key, description, offending node[, second node]).  Only API-level facts of the produced tree are judged.
    """
    out = []
    seen = {}
    order = list(doc.findall())
    # (1) every node once, parent links consistent
    for n in order:
        if id(n) in seen:
            out.append(("tree:node-occurs-twice", f"a <{getattr(n, 'tagname', '#text')}> node object occurs twice in the tree", n))
            break
        seen[id(n)] = n
    for n in order:
        if isinstance(n, nodes.Element):
            for ch in n.children:
                if ch.parent is not n:
                    out.append(("tree:parent-link", f"child <{getattr(ch, 'tagname', '#text')}> of <{n.tagname}> has parent <{getattr(ch.parent, 'tagname', None)}>", ch))
                    break
    if doc.parent is not None:
        out.append(("tree:parent-link", "the document node has a parent", doc))
    # (2) sections, (3) transitions
    for n in order:
        if isinstance(n, nodes.section):
            if not isinstance(n.parent, (nodes.document, nodes.section)):
                out.append(("section:misplaced", f"section under <{n.parent.tagname}>", n))
            if not len(n) or not isinstance(n[0], nodes.title):
                out.append(("section:no-title", f"section starts with <{n[0].tagname if len(n) else None}>", n))
        elif isinstance(n, nodes.transition):
            if not isinstance(n.parent, (nodes.document, nodes.section)):
                kind = "footnotes-transition" if "footnotes" in n.get("classes", []) else "hr"
                out.append((f"transition:{kind}-in-container", f"transition under <{n.parent.tagname}>", n))
    # (4) identifiers
    ids = {}
    for n in order:
        if isinstance(n, nodes.Element):
            for i in n.get("ids", []):
                if i in ids and ids[i] is not n:
                    def _in_toc(x):
                        while x is not None:
                            if isinstance(x, nodes.topic) and "contents" in x.get("classes", []):
                                return True
                            x = x.parent
                        return False

                    # docutils' Contents transform copies the children of every section title into the table of contents, ids included
                    key = "ids:duplicate:toc-copy-of-title-content" if _in_toc(n) != _in_toc(ids[i]) else "ids:duplicate"
                    out.append((key, f"id {i!r} on <{ids[i].tagname}> and <{n.tagname}>", n, ids[i]))
                ids[i] = n
    # (registry agreement is docutils-internal - Node.replace_self moves ids without re-registering - and is only a diagnostic)
    diag = {"ids_not_registered": sum(1 for i in ids if doc.ids.get(i) is None), "ids_registry_mismatch": sum(1 for i, n in ids.items() if doc.ids.get(i) is not None and doc.ids.get(i) is not n)}
    # (6) tables
    for t in doc.findall(nodes.tgroup):
        cols = t.get("cols")
        ncs = sum(1 for c in t.children if isinstance(c, nodes.colspec))
        if cols != ncs:
            out.append(("table:colspec-count", f"tgroup cols={cols} but {ncs} colspec children", t))
        for row in t.findall(nodes.row):
            p = row.parent
            while p is not None and not isinstance(p, nodes.tgroup):
                p = p.parent
            if p is not t:
                continue
            width = sum(1 + e.get("morecols", 0) for e in row.children if isinstance(e, nodes.entry))
            if width != cols:
                out.append(("table:row-width", f"row has {width} cells, table declares {cols} columns", row))
                break
    if stage == "transformed":
        present = set(ids)
        for m in list(getattr(doc, "transform_messages", [])) + list(getattr(doc, "parse_messages", [])):
            for x in m.findall(nodes.Element):
                present.update(x.get("ids", []))
        # (5) internal links
        for n in order:
            if not isinstance(n, nodes.Element):
                continue
            rid = n.get("refid")
            if rid is not None and isinstance(n, (nodes.reference, nodes.footnote_reference, nodes.target, nodes.problematic, nodes.citation_reference)):
                if rid not in present and not _warned(n):
                    reg = doc.ids.get(rid)
                    if reg is not None and not _attached(reg, doc):
                        # the id is registered, but its node was produced by a nested parse whose result the directive threw away
                        out.append((_dangling_key(reg), f"<{n.tagname}> refid {rid!r}: the id is registered in document.ids but its <{reg.tagname}> node is not part of the tree", n))
                    else:
                        out.append((f"refid:dangling:{n.tagname}", f"<{n.tagname}> refid {rid!r} names no id in the tree and no target-not-found message was issued", n))
            for b in n.get("backrefs", []) if isinstance(n, (nodes.footnote, nodes.citation, nodes.system_message)) else []:
                if b not in present:
                    reg = doc.ids.get(b)
                    if reg is not None and not _attached(reg, doc):
                        out.append((_dangling_key(reg), f"<{n.tagname}> backref {b!r}: the id is registered in document.ids but its <{reg.tagname}> node is not part of the tree", n))
                    else:
                        out.append((f"backref:dangling:{n.tagname}", f"<{n.tagname}> backref {b!r} names no id in the tree", n))
        # (7) footnotes start with their label
        for f in doc.findall(nodes.footnote):
            if not len(f) or not isinstance(f[0], nodes.label):
                out.append(("footnote:no-label", f"footnote {f.get('names')} starts with <{f[0].tagname if len(f) else None}>", f))
    check_tree.last_diag = diag
    return out


def _attached(node, doc):
    """docutils' Element.remove() leaves the removed child's parent pointer in place: follow real child links only."""
    while node.parent is not None:
        if not any(c is node for c in node.parent.children):
            return False
        node = node.parent
    return node is doc


def _warned(ref):
    """A 'target not found' message was issued for this reference (it is attached to it)."""
    for sm in ref.findall(nodes.system_message):
        t = sm.astext()
        if "reference target not found" in t or "Unknown target name" in t:
            return True
    return False
