"""Front-end drivers: docutils (publish_doctree / publish_string / bare Parser.parse) and in-process Sphinx."""

from __future__ import annotations

import io
import os
import re
import shutil
import tempfile

from docutils import nodes
from docutils.core import publish_doctree, publish_string
from docutils.frontend import get_default_settings
from docutils.utils import new_document

# halt_level=5: with docutils' default (4) a SEVERE message is turned into a SystemMessage
# exception *by docutils design*; Sphinx runs at 5 and the repository's own tests at 6.
BASE = {"halt_level": 5, "report_level": 2, "output_encoding": "unicode"}


def overrides(ws, **kw):
    so = dict(BASE)
    so["warning_stream"] = ws
    so.update(kw)
    return so


def parse(text, source_path="doc.md", **kw):
    """Full docutils pipeline (parse + transforms). Returns (doctree, warning text)."""
    from myst_parser.parsers.docutils_ import Parser

    ws = io.StringIO()
    dt = publish_doctree(
        text, parser=Parser(), source_path=source_path, settings_overrides=overrides(ws, **kw)
    )
    return dt, ws.getvalue()


def parse_pre(text, source_path="doc.md", **kw):
    """Parser.parse only (no transforms). Returns (doctree, warning text)."""
    from myst_parser.parsers.docutils_ import Parser

    ws = io.StringIO()
    settings = get_default_settings(Parser)
    for k, v in overrides(ws, **kw).items():
        setattr(settings, k, v)
    doc = new_document(source_path, settings=settings)
    Parser().parse(text, doc)
    return doc, ws.getvalue()


def to_html(text, source_path="doc.md", writer="html5", **kw):
    from myst_parser.parsers.docutils_ import Parser

    ws = io.StringIO()
    kw.setdefault("embed_stylesheet", False)
    out = publish_string(
        text,
        parser=Parser(),
        writer_name=writer,
        source_path=source_path,
        settings_overrides=overrides(ws, **kw),
    )
    return out, ws.getvalue()


def mask_lines(node):
    """Delete line/source attributes (in place) so that structure can be compared."""
    for n in node.findall(nodes.Element):
        n.line = None
        n.source = None
        for a in ("line", "source"):
            if a in n.attributes:
                del n[a]
    return node


def pf(children) -> str:
    return "".join(c.pformat() for c in children)


_WARN_RE = re.compile(r"^(?P<src>.*?):(?P<line>\d+)?:? ?\((?P<level>\w+)/(?P<n>\d)\) (?P<msg>.*)$")


def split_warnings(text):
    """Split a docutils warning stream into records {src, line, level, msg} (continuation lines appended)."""
    out = []
    for ln in (text[:-1] if text.endswith("\n") else text).split("\n"):  # (not splitlines(): U+2028, form feeds ... inside a message are characters of that message)
        m = _WARN_RE.match(ln)
        if m:
            d = m.groupdict()
            d["line"] = int(d["line"]) if d["line"] else None
            out.append(d)
        elif out:
            out[-1]["msg"] += "\n" + ln
    return out


TAG_RE = re.compile(r"\[(\w+)\.(\w+)\]\s*$")


def warn_tag(msg: str):
    m = TAG_RE.search(msg.split("\n")[0])
    return (m.group(1), m.group(2)) if m else None


# ----------------------------------------------------------------------------------------------
# Sphinx


class SphinxBuild:
    """One in-process Sphinx build of a dict {relative path: text|bytes} in a fresh temp dir."""

    def __init__(self, files, conf=None, builder="dummy", parallel=0, confpy_extra="", keep=False):
        self.files, self.conf, self.builder = files, dict(conf or {}), builder
        self.parallel, self.confpy_extra = parallel, confpy_extra
        self.tmp = tempfile.mkdtemp(prefix="mvsphx_")
        self.src = os.path.join(self.tmp, "src")
        self.out = os.path.join(self.tmp, "out")
        self.app = None
        self.warnings = ""
        self.status = ""
        self.records = []
        self.freshenv = True
        self._written = False

    def rebuild(self, changes, conf=None):
        """Incremental build in the same directories: ``changes`` maps relative path -> new text (None deletes the file);
        ``conf`` (if given) replaces the generated conf.py's settings."""
        if conf is not None:
            self.conf = dict(conf)
            lines = ["extensions = ['myst_parser']", "exclude_patterns = ['_build']"] + [f"{k} = {v!r}" for k, v in self.conf.items()] + [self.confpy_extra]
            with open(os.path.join(self.src, "conf.py"), "w", encoding="utf8") as f:
                f.write("\n".join(lines) + "\n")
        for rel, content in changes.items():
            p = os.path.join(self.src, rel)
            if content is None:
                self.files.pop(rel, None)
                if os.path.exists(p):
                    os.unlink(p)
            else:
                self.files[rel] = content
                os.makedirs(os.path.dirname(p), exist_ok=True)
                with open(p, "w", encoding="utf8", newline="") as f:
                    f.write(content)
        self.freshenv = False
        del self.records[:]
        return self.build()

    def _handler(self):
        import logging

        records = self.records
        seen = []

        class H(logging.Handler):
            def emit(self, record):
                if any(r is record for r in seen):
                    return
                seen.append(record)
                if record.levelno >= logging.WARNING:
                    loc = getattr(record, "location", None)
                    try:
                        from sphinx.util.logging import get_node_location

                        if isinstance(loc, nodes.Node):
                            loc = get_node_location(loc)
                        elif isinstance(loc, tuple):
                            loc = ":".join(str(x) for x in loc if x is not None)
                    except Exception:  # noqa: BLE001
                        pass
                    records.append({"type": getattr(record, "type", None), "subtype": getattr(record, "subtype", None), "msg": record.getMessage(), "location": loc if isinstance(loc, (str, type(None))) else str(loc)})

        return H()

    def resolve_all(self, docnames):
        """Resolve the given documents against the current environment; the warnings of exactly these resolutions are left in self.records."""
        import logging

        del self.records[:]
        h = self._handler()
        lg = logging.getLogger("sphinx")
        lg.addHandler(h)
        start = len(self._wio.getvalue())
        try:
            return {d: self.app.env.get_and_resolve_doctree(d, self.app.builder) for d in docnames}
        finally:
            lg.removeHandler(h)
            self.resolve_warnings = self._wio.getvalue()[start:]

    _WLINE = re.compile(r"^(?:(?P<loc>.+?): )?(?P<level>WARNING|ERROR|CRITICAL|SEVERE): (?P<msg>.*)$")

    def stream_records(self, text=None):
        """What the USER sees: the warning stream parsed into records (Sphinx' handler-level filters - suppress_warnings, once - have been applied)."""
        out = []
        wtext = self.warnings if text is None else text
        for raw in (wtext[:-1] if wtext.endswith("\n") else wtext).split("\n"):
            l = re.sub(r"\x1b\[[0-9;]*m", "", raw)
            m = self._WLINE.match(l)
            if not m:
                if out and l.strip():
                    out[-1]["msg"] += "\n" + l
                continue
            loc = (m.group("loc") or "").replace(self.src + os.sep, "")
            lm = re.search(r":(\d+)$", loc)
            msg = m.group("msg")
            tm = re.search(r"\[([A-Za-z_]+)\.([A-Za-z_]+)\]\s*$", msg)
            out.append({"path": loc[: lm.start()] if lm else loc, "line": int(lm.group(1)) if lm else None, "location": loc, "msg": msg, "type": tm.group(1) if tm else None, "subtype": tm.group(2) if tm else None})
        for r in out:  # the tag may sit at the end of a multi-line message
            if r["type"] is None:
                tm = re.search(r"\[([A-Za-z_]+)\.([A-Za-z_]+)\]\s*$", r["msg"])
                if tm:
                    r["type"], r["subtype"] = tm.group(1), tm.group(2)
        return out

    def write(self):
        if self._written:
            return
        self._written = True
        os.makedirs(self.src, exist_ok=True)
        for rel, content in self.files.items():
            p = os.path.join(self.src, rel)
            os.makedirs(os.path.dirname(p), exist_ok=True)
            if isinstance(content, bytes):
                with open(p, "wb") as f:
                    f.write(content)
            else:
                with open(p, "w", encoding="utf8", newline="") as f:
                    f.write(content)
        if "conf.py" not in self.files:
            lines = ["extensions = ['myst_parser']", "exclude_patterns = ['_build']"]
            for k, v in self.conf.items():
                lines.append(f"{k} = {v!r}")
            lines.append(self.confpy_extra)
            with open(os.path.join(self.src, "conf.py"), "w", encoding="utf8") as f:
                f.write("\n".join(lines) + "\n")

    def build(self):
        import logging

        from sphinx.application import Sphinx
        from sphinx.util.docutils import docutils_namespace, patch_docutils

        self.write()
        status, warning = io.StringIO(), io.StringIO()
        self._wio = warning
        records = self.records

        seen = []

        class H(logging.Handler):
            def emit(self, record):
                # sphinx buffers warnings (pending_warnings) and hands the same record object to the logger again on flush
                if any(r is record for r in seen):
                    return
                seen.append(record)
                if record.levelno >= logging.WARNING:
                    loc = getattr(record, "location", None)
                    try:
                        from sphinx.util.logging import get_node_location

                        if isinstance(loc, nodes.Node):
                            loc = get_node_location(loc)
                        elif isinstance(loc, tuple):
                            loc = ":".join(str(x) for x in loc if x is not None)
                    except Exception:  # noqa: BLE001
                        pass
                    records.append(
                        {
                            "type": getattr(record, "type", None),
                            "subtype": getattr(record, "subtype", None),
                            "msg": record.getMessage(),
                            "location": loc if isinstance(loc, (str, type(None))) else str(loc),
                        }
                    )

        with patch_docutils(self.src), docutils_namespace():
            app = Sphinx(
                self.src,
                self.src,
                self.out,
                os.path.join(self.tmp, "doctrees"),
                self.builder,
                status=status,
                warning=warning,
                freshenv=self.freshenv,
                parallel=self.parallel,
                confoverrides={},
            )
            h = H()
            lg = logging.getLogger("sphinx")
            # insert after sphinx's own setup so we see records that pass its filters too
            lg.addHandler(h)
            try:
                self.app = app
                app.build()
            finally:
                lg.removeHandler(h)
                self.warnings = warning.getvalue()
                self.status = status.getvalue()
        return self

    def resolved(self, docname):
        from sphinx.util.docutils import docutils_namespace

        return self.app.env.get_and_resolve_doctree(docname, self.app.builder)

    def doctree(self, docname):
        return self.app.env.get_doctree(docname)

    def norm_warnings(self):
        return self.warnings.replace(self.src + os.sep, "").replace(self.src, "")

    def close(self):
        shutil.rmtree(self.tmp, ignore_errors=True)

    def __enter__(self):
        return self

    def __exit__(self, *a):
        self.close()


def parse_staged(text, on_parsed, source_path="doc.md", **kw):
    """Full pipeline; ``on_parsed(document)`` is called directly after Parser.parse (before any transform)."""
    from myst_parser.parsers.docutils_ import Parser

    class StagedParser(Parser):
        def parse(self, inputstring, document):
            super().parse(inputstring, document)
            on_parsed(document)

    ws = io.StringIO()
    dt = publish_doctree(text, parser=StagedParser(), source_path=source_path, settings_overrides=overrides(ws, **kw))
    return dt, ws.getvalue()
