"""vcheck: run one property check (sharded), merge, classify against known findings, write evidence.

Exit codes: 0 = held on everything explored (known findings printed as KNOWN-FINDING lines),
            1 = violation (one ``VIOLATION property=<id> replay=<path>`` line per mechanism key),
            2 = inconclusive (``INCONCLUSIVE property=<id> reason=...``); never folded into 0 or 1.
"""

from __future__ import annotations

import argparse
import collections
import importlib
import json
import os
import shutil
import subprocess
import sys
import tempfile
import time

from . import core

PY = sys.executable


def child_env():
    env = dict(os.environ)
    env["PYTHONPATH"] = os.pathsep.join([core.REPO, core.VERIF])
    env["PYTHONHASHSEED"] = "0"
    env["PYTHONDONTWRITEBYTECODE"] = "1"
    env["VERIF_REPO"] = core.REPO
    env.pop("MYST_PARSER_VERIF", None)
    return env


def load_known():
    path = os.path.join(core.VERIF, "known_findings.json")
    with open(path, encoding="utf8") as f:
        return json.load(f)


def run_shards(mod, prop, tier, seed, nshards, watchdog_s, only_shard=None):
    work = tempfile.mkdtemp(prefix=f"vcheck_{prop}_")
    procs = []
    env = child_env()
    for i in range(nshards):
        if only_shard is not None and i != only_shard:
            continue
        out = os.path.join(work, f"shard{i}.json")
        log = open(os.path.join(work, f"shard{i}.log"), "wb")
        flags = list(getattr(mod, "PYFLAGS", []))
        p = subprocess.Popen(
            [PY, *flags, "-m", "mv.shard", prop, tier, str(seed), str(i), str(nshards), out],
            cwd=core.VERIF,
            env=env,
            stdout=log,
            stderr=subprocess.STDOUT,
        )
        procs.append((i, p, out, log))
    results, problems = [], []
    deadline = time.monotonic() + watchdog_s
    for i, p, out, log in procs:
        try:
            rc = p.wait(timeout=max(1.0, deadline - time.monotonic()))
        except subprocess.TimeoutExpired:
            p.kill()
            p.wait()
            problems.append(f"shard {i} hit the wall-clock watchdog ({watchdog_s}s)")
            log.close()
            continue
        log.close()
        if rc != 0 or not os.path.exists(out):
            tail = ""
            try:
                with open(log.name, "rb") as f:
                    tail = f.read()[-400:].decode("utf8", "replace")
            except OSError:
                pass
            problems.append(f"shard {i} died rc={rc}: {tail}")
            continue
        with open(out, encoding="utf8") as f:
            results.append(json.load(f))
    shutil.rmtree(work, ignore_errors=True)
    return results, problems


def merge(results):
    m = {
        "evaluations": 0,
        "distinct": set(),
        "distinct_by_construction": 0,
        "counters": collections.Counter(),
        "samples": [],
        "violations": {},
        "inconclusive": [],
        "subruns": {},
        "notes": {},
        "shard_wall_s": [],
    }
    for r in sorted(results, key=lambda r: r["shard"]):
        m["evaluations"] += r["evaluations"]
        m["distinct"].update(r["distinct"])
        m["distinct_by_construction"] += r["distinct_by_construction"]
        m["counters"].update(r["counters"])
        if len(m["samples"]) < 8:
            m["samples"].extend(r["samples"][:2])
        for k, v in r["violations"].items():
            cur = m["violations"].get(k)
            if cur is None:
                m["violations"][k] = dict(v)
            else:
                cur["count"] += v["count"]
                if v["size"] < cur["size"]:
                    cnt = cur["count"]
                    cur.update(v)
                    cur["count"] = cnt
        for reason in r["inconclusive"]:
            if reason not in m["inconclusive"]:
                m["inconclusive"].append(reason)
        for name, info in r["subruns"].items():
            d = m["subruns"].setdefault(name, {})
            for k, v in info.items():
                if isinstance(v, (int, float)) and not isinstance(v, bool) and k in d:
                    d[k] += v
                else:
                    d[k] = v
        for k, v in r["notes"].items():
            m["notes"].setdefault(k, v)
        m["shard_wall_s"].append(r["wall_s"])
    return m


def main(argv=None):
    try:  # witnesses may contain lone surrogates or other characters the terminal encoding cannot take
        sys.stdout.reconfigure(errors="backslashreplace")
    except Exception:  # noqa: BLE001
        pass
    ap = argparse.ArgumentParser(prog="vcheck")
    ap.add_argument("prop")
    ap.add_argument("--tier", default=os.environ.get("VERIF_TIER", "quick"), choices=["quick", "thorough"])
    ap.add_argument("--seed", type=int, default=int(os.environ.get("VERIF_SEED", "0") or 0))
    ap.add_argument("--replay")
    ap.add_argument("--shards", type=int)
    ap.add_argument("--only-shard", type=int)
    ap.add_argument("--no-evidence", action="store_true")
    args = ap.parse_args(argv)

    prop = args.prop.upper()
    sys.path.insert(0, core.REPO)
    mod = importlib.import_module(f"mv.checks.{prop.lower()}")

    if args.replay:
        return replay(mod, prop, args.replay)

    t0 = time.monotonic()
    nshards = args.shards or getattr(mod, "SHARDS", {}).get(args.tier, 16)
    watchdog = getattr(mod, "WATCHDOG_S", {"quick": 900, "thorough": 4 * 3600})[args.tier]
    results, problems = run_shards(mod, prop, args.tier, args.seed, nshards, watchdog, args.only_shard)
    m = merge(results)
    for p in problems:
        m["inconclusive"].append(p)
    if hasattr(mod, "finalize") and results:
        mod.finalize(m, args.tier)

    known = load_known()
    known_keys = {f["key"]: f for f in known.get("findings", []) if f["property"] == prop}
    viol_lines, known_lines = [], []
    replay_dir = os.path.join(core.VERIF, "replay", prop)
    if args.only_shard is None:
        shutil.rmtree(replay_dir, ignore_errors=True)  # witnesses of earlier runs would be mistaken for this run's
    for key, v in sorted(m["violations"].items()):
        if key in known_keys:
            known_lines.append(
                f"KNOWN-FINDING: property={prop} {key}: {known_keys[key]['what']} (seen {v['count']}x)"
            )
            continue
        os.makedirs(replay_dir, exist_ok=True)
        safe = "".join(c if c.isalnum() or c in "-_." else "_" for c in key)[:120]
        path = os.path.join(replay_dir, f"{safe}.json")
        with open(path, "w", encoding="utf8", errors="backslashreplace") as f:
            json.dump(
                {"property": prop, "tier": args.tier, "seed": args.seed, **v},
                f, indent=1, ensure_ascii=False,
            )
        viol_lines.append(f"VIOLATION property={prop} replay={os.path.relpath(path, core.VERIF)}  # {key}: {v['what'][:200]} ({v['count']}x)")

    distinct_n = len(m["distinct"]) + m["distinct_by_construction"]
    if not viol_lines and not m["inconclusive"]:
        if m["evaluations"] < 1 or distinct_n < 2:
            m["inconclusive"].append("too few non-trivial cases were evaluated")

    wall = round(time.monotonic() - t0, 2)
    if not args.no_evidence and args.only_shard is None:
        write_evidence(mod, prop, args, m, distinct_n, wall, known_lines, viol_lines)

    for line in known_lines:
        print(line)
    status = "held"
    if viol_lines:
        status = "violated"
        for line in viol_lines:
            print(line)
    elif m["inconclusive"]:
        status = "inconclusive"
        for reason in m["inconclusive"]:
            print(f"INCONCLUSIVE property={prop} reason={reason[:600]}")
    top = ", ".join(f"{k}={v}" for k, v in sorted(m["counters"].items())[:40])
    print(
        f"{prop} {args.tier} seed={args.seed}: {status}; evaluations={m['evaluations']} "
        f"distinct_nontrivial={distinct_n} shards={len(results)}/{nshards} wall={wall}s"
    )
    if top:
        print(f"  observed: {top}")
    return {"held": 0, "violated": 1, "inconclusive": 2}[status]


def write_evidence(mod, prop, args, m, distinct_n, wall, known_lines, viol_lines):
    exhaustive = [n for n, s in m["subruns"].items() if s.get("exhaustive")]
    cov = {
        "evaluations": int(m["evaluations"]),
        "distinct_nontrivial": int(distinct_n),
        "rule": mod.RULE,
        "samples": m["samples"][:8] or ["<none>"],
        "monitor": {k: m["counters"][k] for k in sorted(m["counters"])},
        "subruns": m["subruns"],
        "exhaustive_subruns": exhaustive,
        "known_findings_hit": known_lines,
        "inconclusive": m["inconclusive"],
        "notes": m["notes"],
        "shards": len(m["shard_wall_s"]),
        "shard_wall_s_max": max(m["shard_wall_s"], default=0),
    }
    ev = {
        "property_id": prop,
        "tier": args.tier,
        "seed": args.seed,
        "level": getattr(mod, "LEVEL", "exploration"),
        "coverage": cov,
        "assumptions": list(getattr(mod, "ASSUME", [])),
        "wall_s": wall,
        "violations": len(viol_lines),
    }
    os.makedirs(os.path.join(core.VERIF, "evidence"), exist_ok=True)
    path = os.path.join(core.VERIF, "evidence", f"{prop}.json")
    tmp = path + ".tmp"
    with open(tmp, "w", encoding="utf8", errors="backslashreplace") as f:
        json.dump(ev, f, indent=1, ensure_ascii=False, sort_keys=False)
        f.write("\n")
    os.replace(tmp, path)


def replay(mod, prop, path):
    """Re-run exactly one recorded case in a fresh child process (same env as a shard)."""
    if not os.path.isabs(path):
        path = os.path.join(core.VERIF, path)
    rc = subprocess.call(
        [PY, *getattr(mod, "PYFLAGS", []), "-m", "mv.shard", prop, "--replay", path],
        cwd=core.VERIF,
        env=child_env(),
    )
    return rc


if __name__ == "__main__":
    sys.exit(main())
