#!/bin/sh
# Runs the repository's pinned test suite with the hook guard OFF (there are no hooks: nothing reads
# MYST_PARSER_VERIF) and compares the pass set with /root/.vp/BASELINE.json.stable_pass.
unset MYST_PARSER_VERIF
OUT="$(mktemp -d)"
cd /repo && /venv/bin/python -m pytest -ra -q -p no:cacheprovider --timeout=900 \
    --continue-on-collection-errors --junitxml="$OUT/junit.xml" >"$OUT/log.txt" 2>&1
/venv/bin/python - "$OUT/junit.xml" <<'PY'
import json, sys, xml.etree.ElementTree as ET
base = json.load(open("/root/.vp/BASELINE.json"))
stable = set(base["stable_pass"])
passed = set()
for tc in ET.parse(sys.argv[1]).getroot().iter("testcase"):
    if not any(ch.tag in ("failure", "error", "skipped") for ch in tc):
        passed.add(f'{tc.get("classname")}::{tc.get("name")}')
missing = sorted(stable - passed)
print(f"baseline: {len(stable)} stable tests, {len(stable & passed)} pass, {len(missing)} missing")
for m in missing[:20]:
    print("  MISSING", m)
sys.exit(1 if missing else 0)
PY
RC=$?
[ $RC -ne 0 ] && tail -40 "$OUT/log.txt"
rm -rf "$OUT"
exit $RC
