#!/venv/bin/python
"""Run every stored seeded change against the check of its property (quick tier, scratch copy of /repo, evidence not written).

usage: seed_matrix.py [ID ...] [--tier quick|thorough]      -> writes /verif/seeded/RESULTS.json (merged with earlier results)
A change that no longer applies, or whose meta.json says it was neutralised by a later repository fix, is reported as such.
"""
import json, os, shutil, subprocess, sys, tempfile

HERE = os.path.dirname(os.path.dirname(os.path.abspath(__file__)))
args = sys.argv[1:]
tier = "quick"
if "--tier" in args:
    i = args.index("--tier"); tier = args[i + 1]; del args[i:i + 2]
ids = args or sorted(d for d in os.listdir(os.path.join(HERE, "seeded")) if os.path.isdir(os.path.join(HERE, "seeded", d)))
res_path = os.path.join(HERE, "seeded", "RESULTS.json")
results = json.load(open(res_path)) if os.path.exists(res_path) else {}
for sid in ids:
    prop = sid.split("-")[0]
    patch = os.path.join(HERE, "seeded", sid, "patch.diff")
    meta = json.load(open(os.path.join(HERE, "seeded", sid, "meta.json")))
    tmp = tempfile.mkdtemp(prefix="seedm_")
    dst = os.path.join(tmp, "repo")
    subprocess.check_call(["rsync", "-a", "--exclude", ".git", "--exclude", "__pycache__", "/repo/", dst + "/"])
    entry = {"property": prop, "tier": tier}
    try:
        r = subprocess.run(["git", "apply", "--unsafe-paths", "--directory", dst, patch], cwd="/", capture_output=True, text=True)
        if r.returncode != 0:
            entry["outcome"] = "patch-does-not-apply"
            entry["detail"] = r.stderr[-300:]
        elif subprocess.run(["/venv/bin/python", "-c", "import myst_parser.parsers.docutils_, myst_parser.parsers.sphinx_, myst_parser.mocking, myst_parser.inventory, myst_parser.sphinx_ext.main, myst_parser.cli"],
                            env={**os.environ, "PYTHONPATH": dst}, capture_output=True).returncode != 0:
            entry["outcome"] = "patch-breaks-import"  # a re-ported patch that no longer compiles is a harness problem, not a detection
        else:
            p = subprocess.run([os.path.join(HERE, "vcheck"), prop, "--tier", tier, "--no-evidence"], env={**os.environ, "VERIF_REPO": dst}, capture_output=True, text=True)
            viol = [l.split("#", 1)[1].strip().split(":", 1)[0] if "#" in l else l for l in p.stdout.splitlines() if l.startswith("VIOLATION")]
            keys = [l.split("# ", 1)[1].split(": ", 1)[0] for l in p.stdout.splitlines() if l.startswith("VIOLATION") and "# " in l]
            entry["rc"] = p.returncode
            entry["violation_keys"] = keys[:8]
            entry["outcome"] = "caught" if p.returncode == 1 and keys else ("inconclusive" if p.returncode == 2 else "missed")
            if entry["outcome"] == "missed" and meta.get("status", "").startswith("neutralised"):
                entry["outcome"] = "neutralised-by-fix"
    finally:
        shutil.rmtree(tmp, ignore_errors=True)
    results[sid] = entry
    print(sid, entry["outcome"], entry.get("violation_keys", [])[:3], flush=True)
    json.dump(results, open(res_path, "w"), indent=1, sort_keys=True)
