#!/bin/sh
# usage: tools/sweep.sh TIER "SEEDS" [PROPS...]   - runs checks without writing evidence, prints one summary line per run
TIER="$1"; SEEDS="$2"; shift 2
PROPS="${*:-C01 C02 C03 C04 C05 C06 C07 C08 C09 C10 C11 C12 C13 C14 C15 C16 C17 C18 C19 C20}"
cd "$(dirname "$0")/.."
for s in $SEEDS; do for p in $PROPS; do
  ./vcheck $p --tier $TIER --seed $s --no-evidence 2>&1 | grep -E "^(VIOLATION|INCONCLUSIVE|C[0-9]+ )" | cut -c1-400
done; done
