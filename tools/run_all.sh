#!/bin/sh
# usage: tools/run_all.sh [TIER]   - runs every registered check once (writes evidence), prints one summary line each
TIER="${1:-quick}"
cd "$(dirname "$0")/.."
for p in C01 C02 C03 C04 C05 C06 C07 C08 C09 C10 C11 C12 C13 C14 C15 C16 C17 C18 C19 C20; do
  ./vcheck $p --tier $TIER 2>&1 | grep -E "^(VIOLATION|INCONCLUSIVE|C[0-9]+ )" | cut -c1-300
done
