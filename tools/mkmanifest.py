#!/venv/bin/python
"""Regenerate MANIFEST.json from the table below; validates it against /root/.vp/MANIFEST.schema.json."""

import json
import os
import sys

HERE = os.path.dirname(os.path.dirname(os.path.abspath(__file__)))

NOTE = (
    "Trusted base: CPython 3.12, docutils 0.21.2, Sphinx 8.2.3, markdown-it-py/mdit-py-plugins, PyYAML (reference "
    "oracles where named); the harness generators' ground truth (self-checked). Runtime monitoring: the verdict is "
    "'held on the executions observed' - nothing is claimed about paths the workload did not drive; the evidence "
    "file lists the functions reached and events observed."
)

T = {
    "C01": ("exception capture + sys.monitoring reach/step-budget monitor + fault injection (audit-hook confirmed) over soup/grammar documents x configs, docutils and Sphinx front ends",
            "Runtime monitoring of totality: every generated document x configuration x fault sequence is pushed through publish_doctree and in-process Sphinx builds; an oracle observes 'returned a document, no exception, steps within budget, injected fault reported and rest of document rendered'."),
    "C02": ("reference-model monitor: canonical form of markdown-it token tree vs canonical form of doctree, both back ends",
            "Two independent canonicalisers (token tree / doctree) compared on every generated document in commonmark, gfm-like and MyST modes and both renderers."),
    "C03": ("doctree well-formedness invariant checked at the API boundary after parse and after transforms",
            "Invariant monitor over every doctree a hostile workload produces (parent links, section/transition placement, id uniqueness, refid/backref resolution, table column counts, footnote labels)."),
    "C04": ("marker-based ground-truth line oracle over nested containers/directives/includes; warnings' source:line prefixes",
            "Generator knows the true line of every marker; every attributable node/warning is compared; structural classifier separates known off-by-one mechanisms from new ones."),
    "C05": ("executable section-nesting model vs observed section parents and [myst.header] warnings; exhaustive level sequences",
            "Exhaustive enumeration of heading-level sequences up to a bound plus random/interleaved/nested workloads against a 15-line model."),
    "C06": ("metamorphic monitor: render(W(X)) restricted to wrapper vs render(X)",
            "Pairs of executions of the real code compared after masking line/source; wrappers: directives (both fences, options, depth), include, substitution; cross-boundary definitions."),
    "C07": ("reference-model monitor against PyYAML's event stream + scanner-progress/step-budget monitor",
            "Exhaustive short strings over YAML-significant alphabets plus grammar-generated option blocks; inside the subset the pairs must equal PyYAML's, outside only TokenizeError with an in-range position may be raised; StreamBuffer progress is monitored for termination."),
    "C08": ("independent splitting model vs parse_directive_text over every registry directive class and enumerated contents",
            "Model of argument/option/body partition compared on exhaustive line-vocabulary contents for every docutils/Sphinx directive class."),
    "C09": ("generator-known target table vs observed reference refid/text and exactly-once xref_missing events",
            "Documents with known targets/links; oracle checks each link hits the expected node or warns exactly once at its line."),
    "C10": ("reference slug model + real myst-anchors CLI differential + self-resolution of every slug",
            "Exhaustive small title sequences and random titles; rendering slugs must equal the CLI's, be unique, and resolve to their own heading."),
    "C11": ("footnote numbering/collection model vs observed footnotes, refs, backrefs and warnings",
            "Random and enumerated arrangements of refs/defs under the 2x2 settings compared with an executable model."),
    "C12": ("URI/text/warning model over generated multi-document Sphinx projects (real html/dummy builds)",
            "Every link spelling between every pair of documents in generated projects compared with an independently computed URI and text; exactly-one warning for unresolvable."),
    "C13": ("type predicate per field + entry-point differential (ctor/copy/front matter/docutils strings/Sphinx conf) + global-config snapshot contract",
            "Field x value-shape x entry-point matrix and effect-equivalence of global vs front-matter settings on generated documents."),
    "C14": ("warning event log (patched suppression hook + Sphinx log handler) + suppressed-vs-unsuppressed differential",
            "Every warning event observed is checked against the catalogue; suppression differential on documents triggering combinations of warnings."),
    "C15": ("history differential (fresh subprocess baseline vs after-history) + serial-vs-parallel Sphinx builds with injected delays",
            "Outputs after arbitrary in-process histories compared byte-for-byte with fresh-process baselines; -jN builds compared with -j1 under varied merge orders."),
    "C16": ("totality/tree-consistency invariants on soup + exact round-trip on grammar-generated HTML + find vs independent filter",
            "Exhaustive small trees and random large ones through tokenize_html with structural invariants and round-trip equality."),
    "C17": ("raw pass-through vs token content, <img>/<div.admonition> vs directive differential, stdlib-html.parser GFM filter oracle",
            "Generated HTML fragments under the four extension combinations and gfm_only."),
    "C18": ("reference implementation (Sphinx's InventoryFile.load) + chunking differential with scripted read sizes",
            "Generated inventories (v1/v2, mutations) loaded through every split point / scripted chunk sizes and compared with Sphinx's loader."),
    "C19": ("reference matcher (independent DP) vs match_with_wildcard; brute-force filter; inv: link documents; lru_cache stress",
            "Exhaustive (pattern,name) pairs up to a bound plus random ones against a 20-line reference matcher; filters vs brute force in inventory order; documents with inv: links."),
    "C20": ("2x2 settings differential with numbered sentinels + sys.addaudithook file-access log",
            "Every construct able to carry raw markup or a path is instantiated with sentinels; with the switch off no sentinel markup/raw node/file open may be observed, each refusal warned, rest of document rendered."),
}


def main():
    props = [json.loads(l) for l in open(os.path.join(HERE, "properties.jsonl"), encoding="utf8")]
    checks, na = [], []
    for p in props:
        pid = p["id"]
        mod = os.path.join(HERE, "mv", "checks", pid.lower() + ".py")
        if not os.path.exists(mod):
            na.append({"property_id": pid, "reason": "check not yet built in this revision (planned: runtime monitor per DESIGN.md section 2)"})
            continue
        tech, text = T[pid]
        checks.append(
            {
                "property_id": pid,
                "quick_cmd": f"./vcheck {pid} --tier quick",
                "thorough_cmd": f"./vcheck {pid} --tier thorough",
                "evidence_file": f"evidence/{pid}.json",
                "replay_cmd_template": f"./vcheck {pid} --replay {{path}}",
                "engine": "mv",
                "level_claimed": {"category": "exploration", "text": text, "design_ref": f"DESIGN.md section 2, {pid}"},
                "level_note": NOTE,
                "technique": "runtime monitoring: " + tech,
            }
        )
    man = {
        "version": 1,
        "setup_cmd": "/venv/bin/python -c \"import myst_parser, docutils, sphinx, yaml, markdown_it; print('ok')\"",
        "hooks": {
            "guard": "MYST_PARSER_VERIF",
            "enable": "no hooks were added to the repository: all monitors attach from the harness (sys.monitoring, sys.addaudithook, wrappers installed at run time); the guard variable is reserved and read by nothing",
            "baseline_off_cmd": "./baseline_off.sh",
            "source_commits": [],
            "add_only": True,
        },
        "engines": [
            {
                "name": "mv",
                "path": "mv/",
                "serves_properties": [c["property_id"] for c in checks],
                "kind_free_text": "runtime-monitoring harness: sharded workload drivers, sys.monitoring reach/step monitors, audit hooks, warning-event log, reference models and differential oracles; entry ./vcheck",
            }
        ],
        "checks": checks,
        "notes": "Exit 0 held / 1 VIOLATION / 2 INCONCLUSIVE (never folded). Known findings: known_findings.json (keyed by mechanism). VERIF_SEED and VERIF_TIER honoured.",
        "not_applicable": na,
    }
    out = os.path.join(HERE, "MANIFEST.json")
    with open(out, "w", encoding="utf8") as f:
        json.dump(man, f, indent=1)
        f.write("\n")
    try:
        import jsonschema

        jsonschema.validate(man, json.load(open("/root/.vp/MANIFEST.schema.json")))
        print("MANIFEST valid;", len(checks), "checks,", len(na), "not_applicable")
    except ImportError:
        print("jsonschema not importable here; written without validation")


if __name__ == "__main__":
    main()
