#!/venv/bin/python
"""Rewrite the seeded-change table of DESIGN.md (between the seed-table markers) from seeded/RESULTS.json."""
import json, os, re
HERE = os.path.dirname(os.path.dirname(os.path.abspath(__file__)))
R = json.load(open(os.path.join(HERE, "seeded", "RESULTS.json")))
rows = ["| id | change | outcome (quick tier) | violation keys |", "|---|---|---|---|"]
for sid in sorted(R):
    p = os.path.join(HERE, "seeded", sid, "notes.md")
    notes = open(p).read() if os.path.exists(p) else ""
    title = next((l.lstrip("# ").strip() for l in notes.splitlines() if l.startswith("#")), sid)
    title = re.sub(r"^C\d\d\s*/\s*(change\s*)?[a-z]\s*[-:]\s*", "", title)
    e = R[sid]
    rows.append(f"| {sid} | {title[:110]} | {e['outcome']} | {', '.join('`' + k + '`' for k in e.get('violation_keys', [])[:3])} |")
n = len(R)
caught = sum(1 for e in R.values() if e["outcome"] == "caught")
neut = sum(1 for e in R.values() if e["outcome"] == "neutralised-by-fix")
block = "<!-- seed-table:begin -->\n" + "\n".join(rows) + f"\n\n{caught} of {n} caught, {neut} neutralised by later repository fixes, {n - caught - neut} other.\n<!-- seed-table:end -->"
p = os.path.join(HERE, "DESIGN.md")
s = open(p).read()
if "<!-- seed-table:begin -->" in s:
    s = re.sub(r"<!-- seed-table:begin -->.*?<!-- seed-table:end -->", lambda m: block, s, flags=re.S)
else:
    a = s.index("| id | change | outcome (quick tier) | violation keys |")
    b = s.index("\n\n", s.index("| C20-b", a))
    s = s[:a] + block + s[b:]
open(p, "w").write(s)
print(caught, "of", n, "caught;", neut, "neutralised")
