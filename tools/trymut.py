#!/venv/bin/python
"""Monitor validation: apply a textual edit (or a patch file) to a scratch copy of /repo and run a check on it.

usage: trymut.py PROP FILE OLD NEW [--tier T] [--tests]      (edit: replace OLD by NEW once in FILE)
       trymut.py PROP --patch PATCH [--tier T] [--tests]
The scratch copy lives under /tmp and is removed afterwards. /repo is never touched. Evidence is not written.
"""
import os, shutil, subprocess, sys, tempfile

args = sys.argv[1:]
tier = "quick"
tests = False
if "--tier" in args:
    i = args.index("--tier"); tier = args[i + 1]; del args[i:i + 2]
if "--tests" in args:
    args.remove("--tests"); tests = True
props = args[0].split(",")
tmp = tempfile.mkdtemp(prefix="mut_")
dst = os.path.join(tmp, "repo")
subprocess.check_call(["rsync", "-a", "--exclude", ".git", "--exclude", "__pycache__", "/repo/", dst + "/"])
try:
    if args[1] == "--patch":
        subprocess.check_call(["git", "apply", "--unsafe-paths", "--directory", dst, os.path.abspath(args[2])], cwd="/")
    else:
        f, old, new = args[1:4]
        p = os.path.join(dst, f)
        s = open(p).read()
        assert s.count(old) >= 1, f"OLD not found in {f}"
        open(p, "w").write(s.replace(old, new, 1))
    if tests:
        r = subprocess.run(["/venv/bin/python", "-m", "pytest", "-q", "-p", "no:cacheprovider", "-x", "--deselect", "tests/test_renderers/test_myst_config.py"], cwd=dst, env={**os.environ, "PYTHONPATH": dst}, capture_output=True, text=True)
        print("TESTS:", r.stdout.strip().splitlines()[-1] if r.stdout.strip() else r.stderr[-300:])
    for prop in props:
        env = {**os.environ, "VERIF_REPO": dst}
        r = subprocess.run(["/verif/vcheck", prop, "--tier", tier, "--no-evidence"], env=env, capture_output=True, text=True)
        lines = [l[:260] for l in r.stdout.splitlines() if l.startswith(("VIOLATION", "INCONCLUSIVE", "KNOWN", prop))]
        print(f"[{prop}] rc={r.returncode}")
        print("\n".join(lines[:12]))
        if r.returncode not in (0, 1, 2) or not lines:
            print(r.stdout[-600:], r.stderr[-600:])
finally:
    shutil.rmtree(tmp, ignore_errors=True)
