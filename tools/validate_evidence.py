#!/usr/bin/env python3
"""Validate evidence/*.json against the schema (run with python3-vt, which has jsonschema)."""
import glob, json, sys
import jsonschema
schema = json.load(open("/root/.vp/EVIDENCE.schema.json"))
bad = 0
for p in sorted(glob.glob(sys.argv[1] if len(sys.argv) > 1 else "evidence/*.json")):
    try:
        jsonschema.validate(json.load(open(p)), schema)
        print("ok ", p)
    except Exception as e:
        bad += 1
        print("BAD", p, str(e)[:300])
sys.exit(1 if bad else 0)
