#!/venv/bin/python
"""Confirm a sub-agent's seeded change on a scratch copy of /repo and store it under /verif/seeded/<PROP>-<x>/.

usage: ingest_seed.py PROP X [needs...]     (reads /tmp/wt_out/PROP/X/{patch.diff,demo.py,notes.md})
Confirms: patch applies; the pinned test suite's pass set still contains BASELINE.stable_pass; demo exits 0 without the
patch and non-zero with it. Writes meta.json. The scratch copy is removed.
"""
import json, os, shutil, subprocess, sys, tempfile, xml.etree.ElementTree as ET

prop, x = sys.argv[1], sys.argv[2]
src = f"/tmp/wt_out/{prop}/{x}"
dst_dir = f"/verif/seeded/{prop}-{x}"
tmp = tempfile.mkdtemp(prefix="ingest_")
clean = os.path.join(tmp, "clean"); mut = os.path.join(tmp, "mut")
for d in (clean, mut):
    subprocess.check_call(["rsync", "-a", "--exclude", ".git", "--exclude", "__pycache__", "/repo/", d + "/"])
res = {"property": prop, "id": f"{prop}-{x}"}
try:
    r = subprocess.run(["git", "apply", "--unsafe-paths", "--directory", mut, os.path.join(src, "patch.diff")], cwd="/", capture_output=True, text=True)
    if r.returncode != 0:
        r = subprocess.run(["patch", "-p1", "-d", mut, "-i", os.path.join(src, "patch.diff")], capture_output=True, text=True)
    res["patch_applies"] = r.returncode == 0
    if r.returncode != 0:
        print("PATCH FAILED", r.stderr, r.stdout); sys.exit(1)
    def demo(tree):
        p = subprocess.run(["/venv/bin/python", os.path.join(src, "demo.py")], cwd=tmp, env={**os.environ, "PYTHONPATH": tree}, capture_output=True, text=True, timeout=600)
        return p.returncode, (p.stdout + p.stderr)[-400:]
    rc_clean, out_clean = demo(clean)
    rc_mut, out_mut = demo(mut)
    res["demo_rc_without_patch"] = rc_clean
    res["demo_rc_with_patch"] = rc_mut
    res["demo_tail_with_patch"] = out_mut
    junit = os.path.join(tmp, "j.xml")
    p = subprocess.run(["/venv/bin/python", "-m", "pytest", "-q", "-p", "no:cacheprovider", "--timeout=900", f"--junitxml={junit}"], cwd=mut, env={**os.environ, "PYTHONPATH": mut}, capture_output=True, text=True)
    stable = set(json.load(open("/root/.vp/BASELINE.json"))["stable_pass"])
    passed = set()
    for tc in ET.parse(junit).getroot().iter("testcase"):
        if not any(ch.tag in ("failure", "error", "skipped") for ch in tc):
            passed.add(f'{tc.get("classname")}::{tc.get("name")}')
    res["tests_summary"] = p.stdout.strip().splitlines()[-1]
    res["stable_tests_missing_with_patch"] = sorted(stable - passed)
    ok = rc_clean == 0 and rc_mut != 0 and not res["stable_tests_missing_with_patch"]
    res["confirmed"] = ok
    print(json.dumps({k: v for k, v in res.items() if k != "demo_tail_with_patch"}, indent=1))
    if ok:
        os.makedirs(dst_dir, exist_ok=True)
        # store the patch as applied to the *current* /repo tree so that `git -C /repo apply` works
        d = subprocess.run(["diff", "-ruN", "--exclude=__pycache__", "clean/myst_parser", "mut/myst_parser"], cwd=tmp, capture_output=True, text=True).stdout
        d = d.replace("--- clean/", "--- a/").replace("+++ mut/", "+++ b/")
        d = "\n".join(l for l in d.splitlines() if not l.startswith("diff -ruN")) + "\n"
        open(os.path.join(dst_dir, "patch.diff"), "w").write(d)
        shutil.copy(os.path.join(src, "demo.py"), dst_dir)
        notes = open(os.path.join(src, "notes.md")).read() if os.path.exists(os.path.join(src, "notes.md")) else ""
        open(os.path.join(dst_dir, "notes.md"), "w").write(notes)
        res["needs_to_manifest"] = " ".join(sys.argv[3:]) or "see notes.md"
        res["ran"] = ["git apply patch.diff on a scratch copy of /repo", "pytest (pinned suite): pass set contains BASELINE.stable_pass", "demo.py: rc 0 without patch, non-zero with patch"]
        json.dump(res, open(os.path.join(dst_dir, "meta.json"), "w"), indent=1)
finally:
    shutil.rmtree(tmp, ignore_errors=True)
